#!/bin/bash
# every behaviour-preserving edit must leave every property's check quiet, not only the one it was
# written for. By default each patch is run against the checks that examine a function the patch
# touches (plus its own property); ALLPROPS=1 runs all twenty checks per patch (about ten hours).
out=${1:-/var/tmp/harmless_all.log}; : > $out
mkdir -p /var/tmp/propfuncs
for p in $(seq -w 1 20); do /verif/bin/gpverify list -p C$p > /var/tmp/propfuncs/C$p.txt; done
run() {
  p=$1; id=$(basename $p .patch)
  tmp=$(mktemp -d /var/tmp/gpvh.XXXXXX)
  mkdir -p $tmp/repo && git -C /repo archive HEAD | tar -x -C $tmp/repo
  if ! (cd $tmp/repo && patch -p1 -s < $p); then echo "$id PATCH-FAILED"; rm -rf $tmp; return; fi
  if [ -n "$ALLPROPS" ]; then props="C01 C02 C03 C04 C05 C06 C07 C08 C09 C10 C11 C12 C13 C14 C15 C16 C17 C18 C19 C20"; else props=$(/verif/selftest/relevant_props.py $p ${id%%-*}); fi
  bad=""
  for prop in $props; do
    o=$(GPV_REPO=$tmp/repo GPV_NO_REPLAY=1 /verif/bin/gpverify check -p $prop -scratch $tmp/out 2>&1); c=$?
    if [ $c -ne 0 ]; then bad="$bad $prop(exit$c:$(echo "$o" | grep -m1 'VIOLATION\|UNDECIDED' | sed 's/.*obligation=//; s/replay=[^ ]* //' | cut -c1-110))"; fi
  done
  rm -rf $tmp
  if [ -z "$bad" ]; then echo "$id QUIET under: $props"; else echo "$id ALARMS:$bad"; fi
}
export -f run
ls ${PATCHES:-/verif/selftest/harmless/*.patch} | xargs -P ${JOBS:-4} -I{} bash -c 'run {}' >> $out
echo DONE >> $out
