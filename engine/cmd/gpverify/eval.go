package main

// Evaluation of contract expressions against a symbolic state.

import (
	"os"
	"fmt"
	"go/constant"
	"go/types"
	"strings"

	"golang.org/x/tools/go/ssa"
)

type evaluator struct {
	fr    *Frame
	r     *Run
	st    *State
	old   *State
	extra map[string]Val
	bound map[string]Val
	scope *ssa.BasicBlock
	pkg   *ssa.Package
	depth int
	mode  int // +1: formula to be proved, -1: formula assumed, 0: no skolemization
	pol   int // polarity of the current subformula (+1, -1, 0 unknown)
	// climbTo: identifier lookup may continue from an inlined helper into its callers' scopes up
	// to this frame (clauses of that frame's contract evaluated inside the helper)
	climbTo *Frame
	noLift  bool
}

// identOr is ident without the failure.
func (ev *evaluator) identOr(name string) (v Val, ok bool) {
	defer func() {
		if p := recover(); p != nil {
			if _, isE := p.(evalErr); isE {
				ok = false
				return
			}
			panic(p)
		}
	}()
	return ev.ident(name), true
}

func (fr *Frame) eval(st *State, e *Expr, extra map[string]Val) (v Val, err error) {
	return fr.evalMode(st, e, extra, -1)
}

// evalGoal evaluates a formula that is about to be proved: universal quantifiers in
// positive positions and existential ones in negative positions become fresh constants.
func (fr *Frame) evalGoal(st *State, e *Expr, extra map[string]Val) (v Val, err error) {
	return fr.evalMode(st, e, extra, +1)
}

func (fr *Frame) evalMode(st *State, e *Expr, extra map[string]Val, mode int) (v Val, err error) {
	ev := &evaluator{fr: fr, r: fr.r, st: st, old: fr.entry, extra: extra, bound: map[string]Val{}, mode: mode, pol: 1, scope: fr.scope}
	if fr.liftTo != nil {
		// a loop clause of the enclosing function's contract evaluated inside an inlined helper
		ev.old = fr.liftTo.entry
		ev.climbTo = fr.liftTo
	}
	if fr.fn != nil {
		ev.pkg = fr.fn.Pkg
		if ev.pkg == nil && fr.fn.Parent() != nil {
			ev.pkg = fr.fn.Parent().Pkg
		}
	}
	return ev.evalTop(e)
}

func (ev *evaluator) evalTop(e *Expr) (v Val, err error) {
	defer func() {
		if p := recover(); p != nil {
			if ee, ok := p.(evalErr); ok {
				err = ee.err
				return
			}
			panic(p)
		}
	}()
	return ev.eval(e), nil
}

type evalErr struct{ err error }

func (ev *evaluator) fail(f string, a ...interface{}) Val {
	panic(evalErr{fmt.Errorf(f, a...)})
}

func sortToVal(srt, term string) Val {
	switch srt {
	case "Int":
		return Val{K: KInt, T: types.Typ[types.Int], S: term}
	case "Bool":
		return Val{K: KBool, T: types.Typ[types.Bool], S: term}
	case "Str":
		return Val{K: KStr, T: types.Typ[types.String], S: term}
	case "Ref", "Ptr":
		return Val{K: KRef, S: term}
	case "Iface":
		return Val{K: KIface, S: term}
	case "Slice":
		return Val{K: KSlice, S: term}
	}
	return Val{K: KSpec, Sort: specSort(srt), S: term}
}

func (ev *evaluator) term(v Val) string {
	switch v.K {
	case KPtr:
		return ev.r.ptrTerm(v)
	case KStruct, KTuple, KInvalid:
		ev.fail("aggregate or unsupported value used as a term")
	case KClosure:
		return v.S
	}
	return v.S
}

func (ev *evaluator) eval(e *Expr) Val {
	r := ev.r
	switch e.Op {
	case "int":
		return intVal(sInt(e.Int))
	case "str":
		return Val{K: KStr, T: types.Typ[types.String], S: r.strLit(e.Str)}
	case "bool":
		return boolVal(e.Name)
	case "nil":
		return Val{K: KRef, S: "0"}
	case "id":
		return ev.ident(e.Name)
	case "un":
		if e.Name == "!" {
			ev.pol = -ev.pol
			x := ev.eval(e.Args[0])
			ev.pol = -ev.pol
			return boolVal(sNot(x.S))
		}
		x := ev.eval(e.Args[0])
		switch e.Name {
		case "!":
			return boolVal(sNot(x.S))
		case "-":
			return intVal("(- " + x.S + ")")
		case "*":
			if x.T == nil {
				ev.fail("deref of untyped value %s", e.Args[0])
			}
			v := r.load(ev.st, x)
			if v.K == KInvalid {
				ev.fail("cannot load through %s", e.Args[0])
			}
			return v
		}
	case "bin":
		return ev.binary(e)
	case "sel":
		x := ev.eval(e.Args[0])
		return ev.selectField(x, e.Name, e)
	case "idx":
		x := ev.eval(e.Args[0])
		i := ev.eval(e.Args[1])
		return ev.index(x, i, e)
	case "upd":
		x := ev.eval(e.Args[0])
		i := ev.eval(e.Args[1])
		v := ev.eval(e.Args[2])
		if x.K != KSpec {
			ev.fail("update of non-spec value %s", e.Args[0])
		}
		return Val{K: KSpec, Sort: x.Sort, S: sStore(x.S, ev.term(i), ev.term(v)), T: x.T}
	case "forall", "exists":
		if eff := ev.mode * ev.pol; ev.r.inQuant == 0 && ((e.Op == "forall" && eff == 1) || (e.Op == "exists" && eff == -1)) {
			saved := map[string]Val{}
			for _, bv := range e.Vars {
				if old, ok := ev.bound[bv.Name]; ok {
					saved[bv.Name] = old
				}
				ev.bound[bv.Name] = sortToVal(bv.Sort, r.facts.Fresh("sk_"+bv.Name, specSort(bv.Sort)))
			}
			body := ev.eval(e.Args[0])
			for _, bv := range e.Vars {
				if old, ok := saved[bv.Name]; ok {
					ev.bound[bv.Name] = old
				} else {
					delete(ev.bound, bv.Name)
				}
			}
			return body
		}
		saved := map[string]Val{}
		var decls []string
		for _, bv := range e.Vars {
			if old, ok := ev.bound[bv.Name]; ok {
				saved[bv.Name] = old
			}
			ev.depth++
			n := sym(fmt.Sprintf("%s!q%d", bv.Name, ev.depth))
			srt := specSort(bv.Sort)
			decls = append(decls, "("+n+" "+srt+")")
			ev.bound[bv.Name] = sortToVal(bv.Sort, n)
		}
		ev.r.inQuant++
		ev.r.facts.noDefine++
		body := func() Val {
			defer func() { ev.r.inQuant--; ev.r.facts.noDefine-- }()
			return ev.eval(e.Args[0])
		}()
		for _, bv := range e.Vars {
			if old, ok := saved[bv.Name]; ok {
				ev.bound[bv.Name] = old
			} else {
				delete(ev.bound, bv.Name)
			}
		}
		return boolVal("(" + e.Op + " (" + strings.Join(decls, " ") + ") " + body.S + ")")
	case "call":
		return ev.call(e)
	}
	return ev.fail("cannot evaluate %s", e)
}

func (ev *evaluator) ident(name string) Val {
	r := ev.r
	if v, ok := ev.bound[name]; ok {
		return v
	}
	if v, ok := ev.extra[name]; ok {
		return v
	}
	orig := name
	for f := ev.fr; f != nil; f = f.parent {
		if f.fn == nil {
			continue
		}
		if a := r.eng.aliasesFor(f.fname, f.fn); a != nil {
			if nn, ok := a[name]; ok {
				name = nn
				break
			}
		}
	}
	if i := strings.Index(name, "#"); i > 0 {
		var ord int
		fmt.Sscan(name[i+1:], &ord)
		for h, o := range ev.fr.loopOrd {
			if o != ord {
				continue
			}
			for _, phi := range phisOf(h) {
				if phi.Comment == name[:i] {
					if v, ok := ev.fr.vals[phi]; ok {
						return v
					}
				}
			}
		}
		return ev.fail("no loop variable %s", name)
	}
	for f := ev.fr; f != nil; f = f.parent {
		if v, ok := f.names[name]; ok {
			return v
		}
		if orig != name {
			// a name the contract itself binds (bind/entry/local) keeps its contract name even when
			// a program variable of the same name was renamed
			if v, ok := f.names[orig]; ok {
				return v
			}
		}
		// loop variables by source name (phi comment), preferring the scope block
		if ev.scope != nil && f == ev.fr {
			for _, h := range f.loopChain[ev.scope] {
				for _, phi := range phisOf(h) {
					if phi.Comment == name {
						if v, ok := f.vals[phi]; ok {
							logLocalName(f.fname, name, "loop-phi")
							return v
						}
					}
				}
			}
		}
		var found *Val
		cnt := 0
		for k, v := range f.vals {
			if phi, ok := k.(*ssa.Phi); ok && phi.Comment == name {
				vv := v
				found = &vv
				cnt++
			}
		}
		if cnt == 1 {
			logLocalName(f.fname, name, "phi")
			return *found
		}
		if cnt > 1 {
			// several merge points define the variable: the one in force at the instruction being
			// executed is the latest definition (phi or assignment) that dominates it
			if f.curIns != nil && f.curIns.Block() != nil {
				cb, ci := f.curIns.Block(), instrIndex(f.curIns)
				var best *Val
				bd, bi := -1, -1
				consider := func(v Val, b *ssa.BasicBlock, idx int) {
					if b != cb && !b.Dominates(cb) {
						return
					}
					if b == cb && idx >= ci {
						return
					}
					d := domDepth(b)
					if d > bd || (d == bd && idx > bi) {
						vv := v
						best, bd, bi = &vv, d, idx
					}
				}
				for k, v := range f.vals {
					if phi, ok := k.(*ssa.Phi); ok && phi.Comment == name {
						consider(v, phi.Block(), -1)
					}
				}
				for _, d := range f.dbgAll[name] {
					consider(d.v, d.blk, d.idx)
				}
				if best != nil {
					logLocalName(f.fname, name, "phi-dom")
					return *best
				}
			}
			return ev.fail("identifier %s is ambiguous (several phi nodes)", name)
		}
		if p, ok := f.names["&"+name]; ok {
			v := r.load(ev.st, p)
			if v.K != KInvalid {
				logLocalName(f.fname, name, "alloc")
				return v
			}
		}
		if f.dbg != nil {
			if v, ok := f.dbg[name]; ok {
				logLocalName(f.fname, name, "dbg")
				return v
			}
			if p, ok := f.dbg["&"+name]; ok {
				v := r.load(ev.st, p)
				if v.K != KInvalid {
					return v
				}
			}
		}
		if f.parent == nil {
			break
		}
		if f.fn != nil && f.parent.fn != nil && f.fn.Parent() == f.parent.fn {
			continue // a function literal inlined into its enclosing function: lexical scope
		}
		if ev.climbTo != nil && f != ev.climbTo {
			continue // lifted clause: the names are those of the function under contract
		}
		break // do not look into callers' scopes
	}
	if lf := ev.fr.liftFrom; lf != nil && !ev.noLift {
		// a clause anchored at a statement of an inlined helper: names the function under contract
		// does not define (any more) are looked up in the helper, where extracted code now lives
		ev2 := *ev
		ev2.fr, ev2.noLift, ev2.climbTo, ev2.scope = lf, true, ev.fr, lf.scope
		if v, ok := ev2.identOr(name); ok {
			return v
		}
	}
	if strings.HasPrefix(name, "rpos") {
		key := fmt.Sprintf("it|%s|%s", ev.fr.inst, name[4:])
		if _, ok := r.memSort[key]; ok {
			return intVal(r.get(ev.st, key))
		}
		if ev.climbTo != nil {
			key = fmt.Sprintf("it|%s|%s", ev.climbTo.inst, name[4:])
			if _, ok := r.memSort[key]; ok {
				return intVal(r.get(ev.st, key))
			}
		}
	}
	if srt, ok := r.eng.cs.Ghosts[name]; ok {
		return sortToVal(srt, r.get(ev.st, "g|"+name))
	}
	if sf, ok := r.eng.cs.Specs[name]; ok && len(sf.Args) == 0 {
		return sortToVal(sf.Ret, sym(name))
	}
	// package-level objects
	if ev.pkg != nil {
		if v, ok := ev.pkgMember(ev.pkg, name); ok {
			return v
		}
	}
	for _, p := range r.eng.pkgs {
		if v, ok := ev.pkgMember(p, name); ok {
			return v
		}
	}
	for _, p := range r.eng.allPkgs {
		if p.Pkg.Name() == name {
			return Val{K: KSpec, Sort: "pkg", S: name}
		}
	}
	return ev.fail("unknown identifier %q", name)
}

func (ev *evaluator) pkgMember(p *ssa.Package, name string) (Val, bool) {
	r := ev.r
	m, ok := p.Members[name]
	if !ok {
		return Val{}, false
	}
	switch x := m.(type) {
	case *ssa.NamedConst:
		c := x.Value
		k, _ := kindOf(c.Type())
		switch k {
		case KInt:
			if c.Value.Kind() == constant.Int {
				s := c.Value.ExactString()
				if strings.HasPrefix(s, "-") {
					s = "(- " + s[1:] + ")"
				}
				return Val{K: KInt, T: c.Type(), S: s}, true
			}
		case KStr:
			return Val{K: KStr, T: c.Type(), S: r.strLit(constant.StringVal(c.Value))}, true
		case KBool:
			return boolVal(fmt.Sprint(constant.BoolVal(c.Value))), true
		}
	case *ssa.Global:
		et := x.Type().(*types.Pointer).Elem()
		if ek, _ := kindOfElem(et); ek == KStruct {
			return Val{K: KRef, T: x.Type(), S: r.globalAddr(shortPkgDot(x.Pkg.Pkg.Path()) + x.Name())}, true
		}
		return r.loadGlobal(ev.st, x), true
	case *ssa.Function:
		return r.funcVal(x), true
	}
	return Val{}, false
}

func (ev *evaluator) selectField(x Val, name string, e *Expr) Val {
	r := ev.r
	if x.K == KSpec && x.Sort == "pkg" {
		for _, p := range r.eng.allPkgs {
			if p.Pkg.Name() == x.S || shortPkg(p.Pkg.Path()) == x.S {
				if v, ok := ev.pkgMember(p, name); ok {
					return v
				}
			}
		}
		ev.fail("unknown package member %s.%s", x.S, name)
	}
	if x.K == KTuple || (x.K == KStruct && x.T == nil) {
		ev.fail("field %s of tuple", name)
	}
	if x.T == nil {
		ev.fail("field %s of untyped value in %s", name, e)
	}
	obj, path, _ := types.LookupFieldOrMethod(x.T, true, nil, name)
	if obj == nil {
		// unexported fields need the package
		if n := namedOf(x.T); n != nil && n.Obj().Pkg() != nil {
			obj, path, _ = types.LookupFieldOrMethod(x.T, true, n.Obj().Pkg(), name)
		}
	}
	if _, ok := obj.(*types.Var); !ok || obj == nil {
		ev.fail("no field %s in %s", name, x.T)
	}
	cur := x
	for _, idx := range path {
		switch cur.K {
		case KRef:
			st := structOf(cur.T)
			if st == nil {
				ev.fail("field access on non-struct pointer %s", cur.T)
			}
			fp := r.fieldPtr(cur, idx)
			if fp.K == KRef {
				// nested struct by value: keep as object reference
				cur = fp
				continue
			}
			cur = r.load(ev.st, fp)
			if cur.K == KInvalid {
				ev.fail("cannot load field %s", name)
			}
		case KStruct:
			if idx >= len(cur.Fs) {
				ev.fail("bad field index")
			}
			cur = cur.Fs[idx]
		default:
			ev.fail("field access on kind %d (%s)", cur.K, e)
		}
	}
	return cur
}

func namedOf(t types.Type) *types.Named {
	if p, ok := t.Underlying().(*types.Pointer); ok {
		t = p.Elem()
	}
	if p, ok := t.(*types.Pointer); ok {
		t = p.Elem()
	}
	n, _ := t.(*types.Named)
	return n
}

func (ev *evaluator) index(x, i Val, e *Expr) Val {
	r := ev.r
	switch x.K {
	case KSlice:
		if x.T == nil {
			ev.fail("index of untyped slice %s", e)
		}
		et := x.T.Underlying().(*types.Slice).Elem()
		p := r.elemPtr(sApp("s_base", x.S), fmt.Sprintf("(+ (s_off %s) %s)", x.S, i.S), et)
		if p.K == KRef {
			return p // element struct object
		}
		v := r.load(ev.st, p)
		if v.K == KInvalid {
			ev.fail("cannot load element of %s", e)
		}
		return v
	case KRef:
		if x.T != nil {
			if mt, ok := x.T.Underlying().(*types.Map); ok {
				_, vk, _, _, ok2 := r.mapKeys(mt)
				if !ok2 {
					ev.fail("unsupported map type %s", mt)
				}
				vkind, _ := kindOf(mt.Elem())
				return Val{K: vkind, T: mt.Elem(), S: sSelect(sSelect(r.get(ev.st, vk), x.S), ev.term(i))}
			}
		}
	case KSpec:
		if strings.HasPrefix(x.Sort, "(Array ") {
			inner := arrayRange(x.Sort)
			v := sortFromSMT(inner, sSelect(x.S, ev.term(i)))
			if x.T != nil {
				switch u := x.T.Underlying().(type) {
				case *types.Slice:
					v.T = u.Elem()
					v.K, _ = kindOf(u.Elem())
				case *types.Map:
					v.T = u.Elem()
					v.K, _ = kindOf(u.Elem())
				}
			}
			return v
		}
	}
	return ev.fail("cannot index %s", e)
}

// arrayRange extracts R from "(Array D R)".
func arrayRange(s string) string {
	s = strings.TrimSuffix(strings.TrimPrefix(s, "(Array "), ")")
	// skip domain sort
	d := 0
	for i := 0; i < len(s); i++ {
		switch s[i] {
		case '(':
			d++
		case ')':
			d--
		case ' ':
			if d == 0 {
				return s[i+1:]
			}
		}
	}
	return s
}

func sortFromSMT(srt, term string) Val {
	switch srt {
	case "Int":
		return Val{K: KInt, T: types.Typ[types.Int], S: term}
	case "Bool":
		return boolVal(term)
	case "Str":
		return Val{K: KStr, T: types.Typ[types.String], S: term}
	case "Slice":
		return Val{K: KSlice, S: term}
	}
	return Val{K: KSpec, Sort: srt, S: term}
}

func (ev *evaluator) binary(e *Expr) Val {
	r := ev.r
	op := e.Name
	switch op {
	case "&&", "||", "==>", "<==>":
		savedPol := ev.pol
		switch op {
		case "==>":
			ev.pol = -savedPol
		case "<==>":
			ev.pol = 0
		}
		a := ev.eval(e.Args[0])
		if op == "==>" {
			ev.pol = savedPol
		}
		b := ev.eval(e.Args[1])
		ev.pol = savedPol
		if a.K != KBool || b.K != KBool {
			ev.fail("boolean operator on non-boolean in %s", e)
		}
		switch op {
		case "&&":
			return boolVal(sAnd(a.S, b.S))
		case "||":
			return boolVal(sOr(a.S, b.S))
		case "==>":
			return boolVal(sImp(a.S, b.S))
		default:
			return boolVal("(= " + a.S + " " + b.S + ")")
		}
	case "==", "!=":
		savedPol := ev.pol
		ev.pol = 0
		a := ev.eval(e.Args[0])
		b := ev.eval(e.Args[1])
		ev.pol = savedPol
		var eq string
		switch {
		case e.Args[1].Op == "nil" || e.Args[0].Op == "nil":
			x := a
			if e.Args[0].Op == "nil" {
				x = b
			}
			switch x.K {
			case KSlice:
				eq = sEq(sApp("s_base", x.S), "0")
			case KPtr:
				eq = sEq(r.ptrTerm(x), "0")
			case KClosure:
				eq = "false"
			case KRef, KIface, KInt:
				eq = sEq(x.S, "0")
			default:
				ev.fail("comparison with nil of kind %d in %s", x.K, e)
			}
		case a.K == KStruct || b.K == KStruct:
			if a.K != b.K || len(a.Fs) != len(b.Fs) {
				ev.fail("struct comparison mismatch in %s", e)
			}
			eq = structEq(ev, a, b)
		default:
			eq = sEq(ev.term(a), ev.term(b))
		}
		if op == "!=" {
			return boolVal(sNot(eq))
		}
		return boolVal(eq)
	case "<", "<=", ">", ">=":
		a := ev.eval(e.Args[0])
		b := ev.eval(e.Args[1])
		return boolVal("(" + op + " " + a.S + " " + b.S + ")")
	case "+", "-", "*":
		a := ev.eval(e.Args[0])
		b := ev.eval(e.Args[1])
		if a.K == KStr && op == "+" {
			return Val{K: KStr, T: a.T, S: sApp("scat", a.S, b.S)}
		}
		return Val{K: KInt, T: a.T, S: "(" + op + " " + a.S + " " + b.S + ")"}
	case "/":
		a := ev.eval(e.Args[0])
		b := ev.eval(e.Args[1])
		return intVal("(div " + a.S + " " + b.S + ")")
	case "%":
		a := ev.eval(e.Args[0])
		b := ev.eval(e.Args[1])
		return intVal("(mod " + a.S + " " + b.S + ")")
	case "in":
		k := ev.eval(e.Args[0])
		m := ev.eval(e.Args[1])
		if m.K == KSpec {
			return boolVal(sSelect(m.S, ev.term(k)))
		}
		if m.K == KRef && m.T != nil {
			if mt, ok := m.T.Underlying().(*types.Map); ok {
				dk, _, _, _, ok2 := r.mapKeys(mt)
				if ok2 {
					return boolVal(sAnd(sNot(sEq(m.S, "0")), sSelect(sSelect(r.get(ev.st, dk), m.S), ev.term(k))))
				}
			}
		}
		ev.fail("'in' needs a map or set: %s", e)
	}
	return ev.fail("unknown operator %s", op)
}

func structEq(ev *evaluator, a, b Val) string {
	var cs []string
	for i := range a.Fs {
		if a.Fs[i].K == KStruct {
			cs = append(cs, structEq(ev, a.Fs[i], b.Fs[i]))
		} else if a.Fs[i].K != KInvalid && b.Fs[i].K != KInvalid {
			cs = append(cs, sEq(ev.term(a.Fs[i]), ev.term(b.Fs[i])))
		}
	}
	return sAnd(cs...)
}

func (ev *evaluator) call(e *Expr) Val {
	r := ev.r
	name := e.Name
	arg := func(i int) Val {
		if i >= len(e.Args) {
			ev.fail("%s: missing argument %d", name, i)
		}
		return ev.eval(e.Args[i])
	}
	switch name {
	case "at_loop":
		// value of the expression when the enclosing loop was entered
		var snap *State
		if ev.scope != nil {
			for _, h := range ev.fr.loopChain[ev.scope] {
				if s, ok := ev.fr.loopEntry[h]; ok {
					snap = s
					break
				}
			}
		}
		if snap == nil {
			ev.fail("at_loop used outside a loop")
		}
		saved := ev.st
		ev.st = snap
		v := arg(0)
		ev.st = saved
		return v
	case "old":
		saved := ev.st
		if ev.old != nil {
			ev.st = ev.old
		}
		v := arg(0)
		ev.st = saved
		return v
	case "len":
		x := arg(0)
		switch x.K {
		case KSlice:
			return intVal(sApp("s_len", x.S))
		case KStr:
			return intVal(sApp("slen", x.S))
		}
		ev.fail("len of unsupported value in %s", e)
	case "cap":
		x := arg(0)
		if x.K == KSlice {
			return intVal(sApp("s_cap", x.S))
		}
		if x.K == KRef {
			// capacity of a channel (recorded where it is made)
			r.facts.DeclareFun("chancap", []string{"Int"}, "Int")
			return intVal(sApp("chancap", x.S))
		}
		ev.fail("cap of unsupported value")
	case "base":
		x := arg(0)
		if x.K == KSlice {
			return Val{K: KRef, S: sApp("s_base", x.S)}
		}
		ev.fail("base of non-slice")
	case "held":
		x := arg(0)
		return boolVal(sSelect(r.get(ev.st, "g|$held"), ev.term(x)))
	case "closed":
		x := arg(0)
		return boolVal(sSelect(r.get(ev.st, "g|$closed"), ev.term(x)))
	case "fresh":
		x := arg(0)
		h0 := r.get(ev.fr.entry, "g|$heap")
		if ev.old != nil {
			h0 = r.get(ev.old, "g|$heap")
		}
		t := ev.term(x)
		if x.K == KSlice {
			t = sApp("s_base", x.S)
		}
		return boolVal("(> (root " + t + ") " + h0 + ")")
	case "heapnow":
		return intVal(r.get(ev.st, "g|$heap"))
	case "newer":
		x, h := arg(0), arg(1)
		t := ev.term(x)
		if x.K == KSlice {
			t = sApp("s_base", x.S)
		}
		return boolVal("(> (root " + t + ") " + h.S + ")")
	case "allocated":
		// the reference denotes an object that exists in the current state
		x := arg(0)
		t := ev.term(x)
		if x.K == KSlice {
			t = sApp("s_base", x.S)
		}
		return boolVal("(<= (root " + t + ") " + r.get(ev.st, "g|$heap") + ")")
	case "ite":
		savedPol := ev.pol
		ev.pol = 0
		c := arg(0)
		ev.pol = savedPol
		a, b := arg(1), arg(2)
		return r.iteVal(c.S, a, b)
	case "typeis":
		x := arg(0)
		if e.Args[1].Op != "str" {
			ev.fail("typeis needs a type name string")
		}
		t := ev.resolveType(e.Args[1].Str)
		return boolVal(fmt.Sprintf("(= (itag %s) %d)", x.S, r.typeTag(t)))
	case "unbox":
		x := arg(0)
		if e.Args[1].Op != "str" {
			ev.fail("unbox needs a type name string")
		}
		t := ev.resolveType(e.Args[1].Str)
		v := r.unbox(t, x.S)
		if v.K == KInvalid {
			ev.fail("cannot unbox to %s", t)
		}
		return v
	case "iface":
		x := arg(0)
		if x.T == nil {
			ev.fail("iface() of untyped value")
		}
		return r.box(x.T, x)
	case "cast":
		x := arg(0)
		if e.Args[1].Op != "str" {
			ev.fail("cast needs a type name string")
		}
		x.T = ev.resolveType(e.Args[1].Str)
		if k, _ := kindOf(x.T); k != KInvalid && isScalar(k) && scalarSort(k) == scalarSort(x.K) {
			x.K = k
		}
		return x
	case "elems":
		x := arg(0)
		if x.K != KSlice || x.T == nil {
			ev.fail("elems of non-slice")
		}
		et := x.T.Underlying().(*types.Slice).Elem()
		key := r.elemKey(et)
		_, srt := kindOf(et)
		return Val{K: KSpec, Sort: "(Array Int " + srt + ")", S: sSelect(r.get(ev.st, key), sApp("s_base", x.S)), T: x.T}
	case "off":
		x := arg(0)
		return intVal(sApp("s_off", x.S))
	case "str":
		x := arg(0)
		if x.K != KSlice || x.T == nil {
			ev.fail("str of non-slice")
		}
		et := x.T.Underlying().(*types.Slice).Elem()
		key := r.elemKey(et)
		t := fmt.Sprintf("(bytes2str (select %s (s_base %s)) (s_off %s) (s_len %s))", r.get(ev.st, key), x.S, x.S, x.S)
		if r.inQuant == 0 && !r.once["b2s|"+t] {
			r.once["b2s|"+t] = true
			r.facts.Assert(fmt.Sprintf("(=> (>= (s_len %s) 0) (= (slen %s) (s_len %s)))", x.S, t, x.S))
			r.facts.Assert(fmt.Sprintf("(=> (= (s_len %s) 1) (= %s (char_str (select (select %s (s_base %s)) (s_off %s)))))", x.S, t, r.get(ev.st, key), x.S, x.S))
		}
		return Val{K: KStr, T: types.Typ[types.String], S: t}
	case "seq":
		x := arg(0)
		if x.K != KSlice || x.T == nil {
			ev.fail("seq of non-slice")
		}
		et := x.T.Underlying().(*types.Slice).Elem()
		if b, ok := et.Underlying().(*types.Basic); !ok || b.Kind() != types.String {
			ev.fail("seq() is defined for []string only")
		}
		key := r.elemKey(et)
		return Val{K: KSpec, Sort: "SeqStr", S: fmt.Sprintf("(seq_of_str (select %s (s_base %s)) (s_off %s) (s_len %s))", r.get(ev.st, key), x.S, x.S, x.S)}
	case "str_prefix":
		x, n := arg(0), arg(1)
		if x.K != KSlice || x.T == nil {
			ev.fail("str_prefix of non-slice")
		}
		et := x.T.Underlying().(*types.Slice).Elem()
		key := r.elemKey(et)
		return Val{K: KStr, T: types.Typ[types.String], S: fmt.Sprintf("(bytes2str (select %s (s_base %s)) (s_off %s) %s)", r.get(ev.st, key), x.S, x.S, n.S)}
	case "domain":
		x := arg(0)
		if x.K == KRef && x.T != nil {
			if mt, ok := x.T.Underlying().(*types.Map); ok {
				dk, _, ks, _, ok2 := r.mapKeys(mt)
				if ok2 {
					return Val{K: KSpec, Sort: "(Array " + ks + " Bool)", S: sIte(sEq(x.S, "0"), "((as const (Array "+ks+" Bool)) false)", sSelect(r.get(ev.st, dk), x.S))}
				}
			}
		}
		ev.fail("domain of non-map")
	case "values":
		x := arg(0)
		if x.K == KRef && x.T != nil {
			if mt, ok := x.T.Underlying().(*types.Map); ok {
				_, vk, ks, vs, ok2 := r.mapKeys(mt)
				if ok2 {
					return Val{K: KSpec, Sort: "(Array " + ks + " " + vs + ")", S: sSelect(r.get(ev.st, vk), x.S), T: mt}
				}
			}
		}
		ev.fail("values of non-map")
	case "tagof":
		x := arg(0)
		return intVal(sApp("itag", x.S))
	case "addr":
		// addr(x.f): the place of a field, as a pointer value
		return ev.place(e.Args[0])
	case "toint":
		x := arg(0)
		return Val{K: KInt, T: types.Typ[types.Int], S: wrap(types.Typ[types.Int], x.S)}
	case "emptyset":
		srt := "Int"
		if len(e.Args) == 1 && e.Args[0].Op == "str" {
			srt = specSort(e.Args[0].Str)
		}
		return Val{K: KSpec, Sort: "(Array " + srt + " Bool)", S: "((as const (Array " + srt + " Bool)) false)"}
	case "lit_contains":
		x := arg(0)
		if e.Args[1].Op != "str" {
			ev.fail("lit_contains needs a literal second argument")
		}
		for lit, t := range r.strLits {
			if t == x.S {
				return boolVal(fmt.Sprint(strings.Contains(lit, e.Args[1].Str)))
			}
		}
		if x.S == "str_empty" {
			return boolVal(fmt.Sprint(e.Args[1].Str == ""))
		}
		return boolVal(r.facts.Fresh("litc", "Bool"))
	case "pkg":
		if e.Args[0].Op != "str" {
			ev.fail("pkg needs a string")
		}
		return Val{K: KSpec, Sort: "pkg", S: e.Args[0].Str}
	}
	if strings.HasPrefix(name, "ridx") && len(e.Args) == 1 {
		var ord int
		fmt.Sscan(name[4:], &ord)
		if f, ok := ev.fr.rangeIdxFn[ord]; ok {
			return intVal(sApp(f, ev.term(arg(0))))
		}
		if ev.climbTo != nil {
			if f, ok := ev.climbTo.rangeIdxFn[ord]; ok {
				return intVal(sApp(f, ev.term(arg(0))))
			}
		}
		ev.fail("no range iteration #%d", ord)
	}
	if pd, ok := r.eng.cs.Preds[name]; ok {
		if len(pd.Params) != len(e.Args) {
			ev.fail("pred %s: arity", name)
		}
		saved := map[string]Val{}
		had := map[string]bool{}
		for i, p := range pd.Params {
			if old, ok := ev.bound[p]; ok {
				saved[p] = old
				had[p] = true
			}
			_ = i
		}
		vals := make([]Val, len(e.Args))
		for i := range e.Args {
			vals[i] = ev.eval(e.Args[i])
		}
		for i, p := range pd.Params {
			ev.bound[p] = vals[i]
		}
		v := ev.eval(pd.Body)
		for _, p := range pd.Params {
			if had[p] {
				ev.bound[p] = saved[p]
			} else {
				delete(ev.bound, p)
			}
		}
		return v
	}
	if sf, ok := r.eng.cs.Specs[name]; ok {
		if len(sf.Args) != len(e.Args) {
			ev.fail("spec function %s expects %d arguments", name, len(sf.Args))
		}
		var ts []string
		for i := range e.Args {
			a := ev.eval(e.Args[i])
			t := ev.term(a)
			if sf.Args[i] == "Ref" && a.K == KSlice {
				t = sApp("s_base", a.S)
			}
			ts = append(ts, t)
		}
		return sortToVal(sf.Ret, sApp(sym(name), ts...))
	}
	return ev.fail("unknown function %s", name)
}

// place evaluates an lvalue expression to a pointer value.
func (ev *evaluator) place(e *Expr) Val {
	r := ev.r
	switch e.Op {
	case "sel":
		x := ev.eval(e.Args[0])
		if x.K != KRef || x.T == nil {
			ev.fail("place: %s is not a struct pointer", e.Args[0])
		}
		obj, path, _ := types.LookupFieldOrMethod(x.T, true, nil, e.Name)
		if obj == nil {
			if n := namedOf(x.T); n != nil && n.Obj().Pkg() != nil {
				obj, path, _ = types.LookupFieldOrMethod(x.T, true, n.Obj().Pkg(), e.Name)
			}
		}
		if obj == nil {
			ev.fail("place: no field %s", e.Name)
		}
		cur := x
		for n, idx := range path {
			fp := r.fieldPtr(cur, idx)
			if n == len(path)-1 {
				return fp
			}
			if fp.K == KRef {
				cur = fp
				continue
			}
			cur = r.load(ev.st, fp)
		}
	case "un":
		if e.Name == "*" {
			return ev.eval(e.Args[0])
		}
	case "idx":
		x := ev.eval(e.Args[0])
		i := ev.eval(e.Args[1])
		if x.K == KSlice && x.T != nil {
			et := x.T.Underlying().(*types.Slice).Elem()
			return r.elemPtr(sApp("s_base", x.S), fmt.Sprintf("(+ (s_off %s) %s)", x.S, i.S), et)
		}
	case "id":
		for f := ev.fr; f != nil; f = f.parent {
			if p, ok := f.names["&"+e.Name]; ok {
				return p
			}
			break
		}
		if ev.pkg != nil {
			if g, ok := ev.pkg.Members[e.Name].(*ssa.Global); ok {
				return Val{K: KPtr, T: g.Type(), P: &Place{Kind: PGlobal, Global: g, Elem: g.Type().(*types.Pointer).Elem()}}
			}
		}
	}
	return ev.fail("not an lvalue: %s", e)
}

func (ev *evaluator) resolveType(s string) types.Type {
	s = strings.TrimSpace(s)
	if strings.HasPrefix(s, "*") {
		return types.NewPointer(ev.resolveType(s[1:]))
	}
	if strings.HasPrefix(s, "[]") {
		return types.NewSlice(ev.resolveType(s[2:]))
	}
	if s == "interface{}" || s == "any" {
		return types.NewInterfaceType(nil, nil)
	}
	if strings.HasPrefix(s, "map[") {
		d := 0
		for i := 4; i < len(s); i++ {
			if s[i] == '[' {
				d++
			}
			if s[i] == ']' {
				if d == 0 {
					return types.NewMap(ev.resolveType(s[4:i]), ev.resolveType(s[i+1:]))
				}
				d--
			}
		}
	}
	if o := types.Universe.Lookup(s); o != nil {
		if tn, ok := o.(*types.TypeName); ok {
			return tn.Type()
		}
	}
	pkgName, typeName := "", s
	if i := strings.LastIndex(s, "."); i >= 0 {
		pkgName, typeName = s[:i], s[i+1:]
	}
	for _, p := range ev.r.eng.allPkgs {
		if pkgName == "" {
			if !ev.r.eng.modPkgSet[p.Pkg] {
				continue
			}
		} else if p.Pkg.Name() != pkgName && shortPkg(p.Pkg.Path()) != pkgName && p.Pkg.Path() != pkgName {
			continue
		}
		if o := p.Pkg.Scope().Lookup(typeName); o != nil {
			if tn, ok := o.(*types.TypeName); ok {
				return tn.Type()
			}
		}
	}
	ev.fail("unknown type %q", s)
	return nil
}

var localNameLog = map[string]bool{}

func logLocalName(fn, name, how string) {
	if os.Getenv("GPV_LOGNAMES") == "" {
		return
	}
	k := fn + "\t" + name + "\t" + how
	if !localNameLog[k] {
		localNameLog[k] = true
		fmt.Fprintln(os.Stderr, "LOCALNAME\t"+k)
	}
}
