package main

import (
	"fmt"
	"go/token"
	"go/types"
	"os"
	"path/filepath"
	"sort"
	"strings"

	"golang.org/x/tools/go/packages"
	"golang.org/x/tools/go/ssa"
	"golang.org/x/tools/go/ssa/ssautil"
)

type Engine struct {
	repo      string
	prog      *ssa.Program
	fset      *token.FileSet
	pkgs      []*ssa.Package
	allPkgs   []*ssa.Package
	funcs     map[string]*ssa.Function // short name -> function (module functions incl. anonymous)
	infos     map[*types.Package]*types.Info
	refNames  map[string]fnNames
	aliasMemo map[string]map[string]string
	cs        *Contracts
	pkgShort  [][2]string // (path+".", short+".") sorted by length desc
	stableNN  map[string]bool
	known     KnownFile
	modPkgSet map[*types.Package]bool
}

var pkgNames = map[string]string{}

func shortPkgDot(path string) string {
	if path == modPath {
		return ""
	}
	if n, ok := pkgNames[path]; ok {
		return n + "."
	}
	return shortPkg(path) + "."
}

func loadEngine(repo string, verifDir string) (*Engine, error) {
	cfg := &packages.Config{Mode: packages.LoadAllSyntax, Dir: repo, BuildFlags: []string{"-tags=verif"}, Env: append(os.Environ(), "GOFLAGS=-mod=mod", "GOPROXY=off", "GOTOOLCHAIN=local")}
	pkgs, err := packages.Load(cfg, ".", "./internal/grpcmux", "./internal/cmdrunner", "./runner")
	if err != nil {
		return nil, err
	}
	nerr := 0
	packages.Visit(pkgs, nil, func(p *packages.Package) {
		for _, e := range p.Errors {
			if nerr < 10 {
				fmt.Fprintln(os.Stderr, "load error:", e)
			}
			nerr++
		}
	})
	if nerr > 0 {
		return nil, fmt.Errorf("%d package load errors (does /repo compile?)", nerr)
	}
	prog, spkgs := ssautil.AllPackages(pkgs, ssa.InstantiateGenerics|ssa.GlobalDebug)
	prog.Build()
	infos := map[*types.Package]*types.Info{}
	packages.Visit(pkgs, nil, func(p *packages.Package) {
		if p.Types != nil && p.TypesInfo != nil {
			infos[p.Types] = p.TypesInfo
		}
	})
	e := &Engine{repo: repo, prog: prog, fset: prog.Fset, pkgs: spkgs, funcs: map[string]*ssa.Function{}, infos: infos, stableNN: map[string]bool{}, modPkgSet: map[*types.Package]bool{}}
	seen := map[string]bool{}
	for _, p := range prog.AllPackages() {
		e.allPkgs = append(e.allPkgs, p)
		path := p.Pkg.Path()
		if !seen[path] {
			seen[path] = true
			short := p.Pkg.Name() + "."
			if path == modPath {
				short = ""
			}
			pkgNames[path] = p.Pkg.Name()
			e.pkgShort = append(e.pkgShort, [2]string{path + ".", short})
		}
	}
	sort.Slice(e.pkgShort, func(i, j int) bool { return len(e.pkgShort[i][0]) > len(e.pkgShort[j][0]) })
	for _, p := range spkgs {
		e.modPkgSet[p.Pkg] = true
	}
	for fn := range ssautil.AllFunctions(prog) {
		if fn.Pkg == nil || !e.modPkgSet[fn.Pkg.Pkg] {
			// anonymous functions have Pkg set too; methods of instantiated generics may not
			continue
		}
		if fn.Synthetic != "" && !strings.HasPrefix(fn.Synthetic, "package init") {
			continue
		}
		name := e.funcName(fn)
		if old, ok := e.funcs[name]; ok && old != fn {
			continue
		}
		e.funcs[name] = fn
	}
	// globals initialised once in package init by errors.New / fmt.Errorf and never stored to elsewhere
	e.scanStableGlobals()
	// contracts
	e.cs = newContracts()
	if err := e.cs.LoadDir(filepath.Join(verifDir, "contracts")); err != nil {
		return nil, err
	}
	for _, rel := range []string{"verif_contracts.go", "internal/grpcmux/verif_contracts.go", "internal/cmdrunner/verif_contracts.go"} {
		p := filepath.Join(repo, rel)
		if _, err := os.Stat(p); err == nil {
			if err := e.cs.LoadFile(p, true); err != nil {
				return nil, err
			}
		}
	}
	for _, fc := range e.cs.Funcs {
		fc.computeProps()
	}
	e.loadRefNames(verifDir)
	e.remapClosureContracts()
	e.known = loadKnown()
	for i := range e.known.Findings {
		f := &e.known.Findings[i]
		if f.Region != "" {
			ex, err := parseExpr(f.Region)
			if err != nil {
				return nil, fmt.Errorf("known_findings.json: region of %s: %v", f.Obligation, err)
			}
			f.regionExpr = ex
		}
	}
	return e, nil
}

func (e *Engine) funcName(fn *ssa.Function) string {
	return e.shorten(fn.String())
}

func (e *Engine) shorten(s string) string {
	for _, ps := range e.pkgShort {
		if strings.Contains(s, ps[0]) {
			s = strings.ReplaceAll(s, ps[0], ps[1])
		}
	}
	return s
}

func (e *Engine) isStableNonNilGlobal(name string) bool { return e.stableNN[name] }

func (e *Engine) scanStableGlobals() {
	stores := map[*ssa.Global]int{}
	initStore := map[*ssa.Global]bool{}
	for fn := range ssautil.AllFunctions(e.prog) {
		if fn.Pkg == nil || !e.modPkgSet[fn.Pkg.Pkg] {
			continue
		}
		isInit := fn.Name() == "init" && fn.Synthetic != ""
		for _, b := range fn.Blocks {
			for _, in := range b.Instrs {
				st, ok := in.(*ssa.Store)
				if !ok {
					continue
				}
				g, ok := st.Addr.(*ssa.Global)
				if !ok {
					continue
				}
				stores[g]++
				if isInit {
					if c, ok := st.Val.(*ssa.Call); ok {
						if f := c.Call.StaticCallee(); f != nil {
							n := f.String()
							if n == "errors.New" || n == "fmt.Errorf" {
								initStore[g] = true
							}
						}
					}
					// alias of another package's error var (ErrProcessNotFound = cmdrunner.ErrProcessNotFound)
					if u, ok := st.Val.(*ssa.UnOp); ok {
						if g2, ok := u.X.(*ssa.Global); ok && initStore[g2] {
							initStore[g] = true
						}
					}
				}
			}
		}
	}
	for g, ok := range initStore {
		if ok && stores[g] == 1 {
			e.stableNN[shortPkgDot(g.Pkg.Pkg.Path())+g.Name()] = true
		}
	}
}

func (e *Engine) pos(p token.Pos) string {
	if !p.IsValid() {
		return ""
	}
	po := e.fset.Position(p)
	rel, err := filepath.Rel(e.repo, po.Filename)
	if err != nil {
		rel = po.Filename
	}
	return fmt.Sprintf("%s:%d", rel, po.Line)
}

// immutableKey: F|T|f where the type contract of T declares f immutable (written only by
// the listed writer functions; checked by the guarded discipline and the module scan).
func (e *Engine) immutableKey(key string) bool {
	if !strings.HasPrefix(key, "F|") {
		return false
	}
	parts := strings.SplitN(key[2:], "|", 2)
	if len(parts) != 2 {
		return false
	}
	tc := e.cs.Types[parts[0]]
	if tc == nil {
		return false
	}
	for _, f := range tc.Flags["immutable"] {
		if f == parts[1] {
			return true
		}
	}
	return false
}

// moduleScan checks, over the SSA of every function of the module, that fields declared
// immutable are stored to only inside the declared writer functions (or on objects
// allocated in the storing function). Returns one site obligation per (type, field).
func (e *Engine) moduleScan() []*Obligation {
	var out []*Obligation
	for _, fc := range e.cs.Funcs {
		if w, ok := fc.Flags["stdout_writer"]; ok {
			var tags []string
			for _, t := range w {
				if strings.HasPrefix(t, "C") {
					tags = append(tags, t)
				}
			}
			var allowed []string
			for _, f2 := range e.cs.Funcs {
				if _, ok := f2.Flags["stdout_writer"]; ok {
					allowed = append(allowed, f2.Name)
				}
			}
			sort.Strings(allowed)
			out = append(out, e.stdoutWriterScan(allowed, tags))
			break
		}
	}
	var tnames []string
	for n := range e.cs.Types {
		tnames = append(tnames, n)
	}
	sort.Strings(tnames)
	for _, tn := range tnames {
		tc := e.cs.Types[tn]
		for _, oc := range tc.Flags["once"] {
			parts := strings.SplitN(oc, ":", 2)
			if len(parts) != 2 {
				continue
			}
			fld := strings.TrimSpace(parts[1])
			closers := map[string]bool{}
			for _, c := range tc.Flags["closers"] {
				closers[c] = true
			}
			var bad []string
			for name, fn := range e.funcs {
				for _, b := range fn.Blocks {
					for _, in := range b.Instrs {
						call, ok := in.(*ssa.Call)
						if !ok {
							continue
						}
						bi, ok := call.Call.Value.(*ssa.Builtin)
						if !ok || bi.Name() != "close" {
							continue
						}
						u, ok := call.Call.Args[0].(*ssa.UnOp)
						if !ok {
							continue
						}
						fa, ok := u.X.(*ssa.FieldAddr)
						if !ok || structKey(fa.X.Type()) != tn || structOf(fa.X.Type()).Field(fa.Field).Name() != fld {
							continue
						}
						if _, _, protected := e.onceProtectedClose(in, call.Call.Args[0]); protected || closers[name] {
							continue
						}
						bad = append(bad, name+" ("+e.pos(in.Pos())+")")
					}
				}
			}
			sort.Strings(bad)
			goal, st := "true", "unsat"
			text := "channel " + tn + "." + fld + " is closed only inside its sync.Once (or by the listed closers " + strings.Join(tc.Flags["closers"], ",") + ")"
			if len(bad) > 0 {
				goal, st = "false", "sat"
				text += "; other close sites: " + strings.Join(bad, "; ")
			}
			out = append(out, &Obligation{Name: "module/once/" + tn + "." + fld, Kind: "close-once", Func: "module", Tags: tc.Tags, Text: text, Goal: goal, Pc: "true", Site: true,
				Result: &SolverResult{Status: st, Solver: "ssa-scan"}})
		}
		for _, fld := range tc.Flags["never_closed"] {
			var bad []string
			for name, fn := range e.funcs {
				for _, b := range fn.Blocks {
					for _, in := range b.Instrs {
						call, ok := in.(*ssa.Call)
						if !ok {
							continue
						}
						bi, ok := call.Call.Value.(*ssa.Builtin)
						if !ok || bi.Name() != "close" {
							continue
						}
						if u, ok := call.Call.Args[0].(*ssa.UnOp); ok {
							if fa, ok := u.X.(*ssa.FieldAddr); ok && structKey(fa.X.Type()) == tn && structOf(fa.X.Type()).Field(fa.Field).Name() == fld {
								bad = append(bad, name+" ("+e.pos(in.Pos())+")")
							}
						}
					}
				}
			}
			sort.Strings(bad)
			goal, st := "true", "unsat"
			text := "channel " + tn + "." + fld + " is never closed in the module"
			if len(bad) > 0 {
				goal, st = "false", "sat"
				text += "; close sites: " + strings.Join(bad, "; ")
			}
			out = append(out, &Obligation{Name: "module/never-closed/" + tn + "." + fld, Kind: "close-once", Func: "module", Tags: tc.Tags, Text: text, Goal: goal, Pc: "true", Site: true,
				Result: &SolverResult{Status: st, Solver: "ssa-scan"}})
		}
		imm := tc.Flags["immutable"]
		if len(imm) == 0 {
			continue
		}
		writers := map[string]bool{}
		for _, w := range tc.Flags["writers"] {
			writers[w] = true
		}
		for _, f := range imm {
			var bad []string
			for name, fn := range e.funcs {
				if writers[name] {
					continue
				}
				for _, b := range fn.Blocks {
					for _, in := range b.Instrs {
						fa, ok := in.(*ssa.FieldAddr)
						if !ok || structKey(fa.X.Type()) != tn {
							continue
						}
						so := structOf(fa.X.Type())
						if so == nil || so.Field(fa.Field).Name() != f {
							continue
						}
						if _, fresh := fa.X.(*ssa.Alloc); fresh {
							continue
						}
						for _, ref := range *fa.Referrers() {
							switch x := ref.(type) {
							case *ssa.Store:
								if x.Addr == fa {
									bad = append(bad, name+" ("+e.pos(x.Pos())+")")
								}
							case *ssa.UnOp, *ssa.DebugRef, *ssa.FieldAddr:
							default:
								// address escapes (call argument, closure, ...): only reads are expected
								if c, ok := ref.(ssa.CallInstruction); ok {
									cn := ""
									if sc := c.Common().StaticCallee(); sc != nil {
										cn = sc.String()
									}
									if strings.HasPrefix(cn, "(*sync.") || strings.HasPrefix(cn, "sync/atomic.") {
										continue
									}
									bad = append(bad, name+" passes &"+tn+"."+f+" to "+cn+" ("+e.pos(ref.Pos())+")")
								}
							}
						}
					}
				}
			}
			sort.Strings(bad)
			goal := "true"
			text := "field " + tn + "." + f + " is written only by its declared writers " + strings.Join(tc.Flags["writers"], ",")
			st := "unsat"
			if len(bad) > 0 {
				goal = "false"
				st = "sat"
				text += "; violated in: " + strings.Join(bad, "; ")
			}
			out = append(out, &Obligation{Name: "module/immutable/" + tn + "." + f, Kind: "immutable", Func: "module", Tags: tc.Tags, Text: text, Goal: goal, Pc: "true", Site: true,
				Result: &SolverResult{Status: st, Solver: "ssa-scan"}})
		}
	}
	return out
}

// onceProtectedClose recognises close(x.f) executed inside a function literal that is passed
// directly to x.o.Do, where the type contract of x's struct declares `once o: f`.
func (e *Engine) onceProtectedClose(ins ssa.Instruction, chv ssa.Value) (typeName, field string, ok bool) {
	fn := ins.Parent()
	if fn == nil || fn.Parent() == nil {
		return
	}
	// channel operand: load of a field
	u, isU := chv.(*ssa.UnOp)
	if !isU {
		return
	}
	fa, isFA := u.X.(*ssa.FieldAddr)
	if !isFA {
		return
	}
	so := structOf(fa.X.Type())
	if so == nil {
		return
	}
	tn := structKey(fa.X.Type())
	tc := e.cs.Types[tn]
	if tc == nil {
		return
	}
	fld := so.Field(fa.Field).Name()
	onceField := ""
	for _, oc := range tc.Flags["once"] {
		parts := strings.SplitN(oc, ":", 2)
		if len(parts) == 2 && strings.TrimSpace(parts[1]) == fld {
			onceField = strings.TrimSpace(parts[0])
		}
	}
	if onceField == "" {
		return
	}
	// the enclosing literal must be used only as the argument of (*sync.Once).Do on field onceField
	parent := fn.Parent()
	for _, b := range parent.Blocks {
		for _, in := range b.Instrs {
			mc, isMC := in.(*ssa.MakeClosure)
			if !isMC || mc.Fn != fn {
				continue
			}
			refs := mc.Referrers()
			if refs == nil {
				return
			}
			for _, ref := range *refs {
				call, isCall := ref.(*ssa.Call)
				if !isCall {
					if _, isDbg := ref.(*ssa.DebugRef); isDbg {
						continue
					}
					return
				}
				sc := call.Call.StaticCallee()
				if sc == nil || sc.String() != "(*sync.Once).Do" || len(call.Call.Args) != 2 {
					return
				}
				ofa, isOFA := call.Call.Args[0].(*ssa.FieldAddr)
				if !isOFA || structKey(ofa.X.Type()) != tn {
					return
				}
				oso := structOf(ofa.X.Type())
				if oso.Field(ofa.Field).Name() != onceField {
					return
				}
			}
			return tn, fld, true
		}
	}
	return
}

// stdoutWriterScan: the instructions of the module that can write to the process's real
// stdout (fmt.Print*, fmt.Fprint* with os.Stdout, methods on os.Stdout, os.NewFile(1, ...))
// occur only in the allowed functions. One obligation for the whole module.
func (e *Engine) stdoutWriterScan(allowed []string, tags []string) *Obligation {
	ok := map[string]bool{}
	for _, a := range allowed {
		ok[a] = true
	}
	var bad []string
	for name, fn := range e.funcs {
		base := name
		if i := strings.Index(base, "$"); i >= 0 {
			base = base[:i]
		}
		if ok[name] || ok[base] {
			continue
		}
		for _, b := range fn.Blocks {
			for _, in := range b.Instrs {
				switch x := in.(type) {
				case ssa.CallInstruction:
					sc := x.Common().StaticCallee()
					if sc == nil {
						continue
					}
					n := sc.String()
					switch n {
					case "fmt.Print", "fmt.Println", "fmt.Printf":
						bad = append(bad, name+": "+n+" ("+e.pos(in.Pos())+")")
					case "os.NewFile":
						bad = append(bad, name+": "+n+" ("+e.pos(in.Pos())+")")
					}
				case *ssa.UnOp:
					if g, isG := x.X.(*ssa.Global); isG && g.Pkg.Pkg.Path() == "os" && g.Name() == "Stdout" {
						bad = append(bad, name+": reads os.Stdout ("+e.pos(in.Pos())+")")
					}
				}
			}
		}
	}
	sort.Strings(bad)
	goal, st := "true", "unsat"
	text := "only " + strings.Join(allowed, ", ") + " can write to the process's stdout"
	if len(bad) > 0 {
		goal, st = "false", "sat"
		text += "; other sites: " + strings.Join(bad, "; ")
	}
	return &Obligation{Name: "module/stdout-writers", Kind: "frame", Func: "module", Tags: tags, Text: text, Goal: goal, Pc: "true", Site: true, Result: &SolverResult{Status: st, Solver: "ssa-scan"}}
}
