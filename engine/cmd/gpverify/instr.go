package main

import (
	"fmt"
	"go/ast"
	"go/token"
	"go/types"
	"regexp"
	"strings"

	"golang.org/x/tools/go/ssa"
)

func (fr *Frame) nopanicTags() []string {
	if fr.contract != nil {
		if t, ok := fr.contract.Flags["nopanic"]; ok {
			return t
		}
	}
	// inlined helpers inherit from the nearest ancestor with a contract
	for p := fr.parent; p != nil; p = p.parent {
		if p.contract != nil {
			if t, ok := p.contract.Flags["nopanic"]; ok {
				return t
			}
		}
	}
	return nil
}

// ownerName: obligations inside inlined callees are reported under the top function,
// with the inlined function in the obligation name.
func (fr *Frame) oblFunc() string {
	f := fr
	for f.parent != nil {
		f = f.parent
	}
	return f.fname
}

func (fr *Frame) oblName(s string) string {
	if fr.parent == nil {
		return s
	}
	return fr.fname + ":" + s
}

func (fr *Frame) nopanic(st *State, what string, cond string, pos token.Pos, text string) {
	fr.r.require(st, "nopanic", fr.oblFunc(), fr.oblName(what), cond, fr.nopanicTags(), pos, text)
}

func (fr *Frame) set(v ssa.Value, val Val) {
	val.T = v.Type()
	fr.vals[v] = val
}

func (fr *Frame) describe(v ssa.Value) string {
	switch x := v.(type) {
	case *ssa.Parameter:
		return x.Name()
	case *ssa.FreeVar:
		return x.Name()
	case *ssa.UnOp:
		if x.Op == token.MUL {
			return fr.describe(x.X)
		}
	case *ssa.FieldAddr:
		if st := structOf(x.X.Type()); st != nil {
			return fr.describe(x.X) + "." + st.Field(x.Field).Name()
		}
	case *ssa.Field:
		if st, ok := x.X.Type().Underlying().(*types.Struct); ok {
			return fr.describe(x.X) + "." + st.Field(x.Field).Name()
		}
	case *ssa.Global:
		return x.Name()
	case *ssa.Phi:
		if x.Comment != "" {
			return x.Comment
		}
	case *ssa.Alloc:
		if x.Comment != "" {
			return x.Comment
		}
	case *ssa.Extract:
		if c, ok := x.Tuple.(*ssa.Call); ok {
			return fmt.Sprintf("%s.%d", fr.r.calleeName(&c.Call), x.Index)
		}
		return fmt.Sprintf("%s.%d", fr.describe(x.Tuple), x.Index)
	case *ssa.Call:
		return fr.r.calleeName(&x.Call) + "()"
	case *ssa.Lookup:
		return fr.describe(x.X) + "[]"
	case *ssa.IndexAddr:
		return fr.describe(x.X) + "[]"
	case *ssa.TypeAssert:
		return fr.describe(x.X) + ".(" + typeKey(x.AssertedType) + ")"
	case *ssa.ChangeType:
		return fr.describe(x.X)
	case *ssa.ChangeInterface:
		return fr.describe(x.X)
	case *ssa.MakeInterface:
		return fr.describe(x.X)
	case *ssa.Slice:
		return fr.describe(x.X) + "[:]"
	case *ssa.Const:
		return x.String()
	}
	return v.Name()
}

func instrIndex(in ssa.Instruction) int {
	for i, x := range in.Block().Instrs {
		if x == in {
			return i
		}
	}
	return -1
}

func domDepth(b *ssa.BasicBlock) int {
	d := 0
	for x := b.Idom(); x != nil; x = x.Idom() {
		d++
	}
	return d
}

var literalSlice = regexp.MustCompile(`^\(mk_slice (\S+) (\d+) (\d+) (\d+)\)$`)

// step executes one instruction; returns false when the path ends (return/panic).
func (fr *Frame) step(st *State, ins ssa.Instruction) bool {
	r := fr.r
	switch in := ins.(type) {
	case *ssa.DebugRef:
		// remember which SSA value a source variable currently denotes (for contract expressions)
		if id, ok := in.Expr.(*ast.Ident); ok && in.X != nil {
			if _, isFn := in.X.(*ssa.Function); !isFn {
				if v, ok := fr.vals[in.X]; ok {
					v.T = in.X.Type()
					if in.IsAddr {
						fr.dbg["&"+id.Name] = v
					} else {
						fr.dbg[id.Name] = v
						if fr.dbgAll == nil {
							fr.dbgAll = map[string][]dbgRec{}
						}
						fr.dbgAll[id.Name] = append(fr.dbgAll[id.Name], dbgRec{v, in.Block(), instrIndex(in)})
					}
				}
			}
		}
		return true
	case *ssa.Alloc:
		et := in.Type().(*types.Pointer).Elem()
		ek, _ := kindOfElem(et)
		if !in.Heap {
			if ek == KStruct {
				// local struct/array: allocate an object anyway (fields in heap arrays), simple and uniform
				a := r.alloc(st, "loc_"+in.Comment)
				fr.set(in, Val{K: KRef, S: a})
				r.zeroObject(st, Val{K: KRef, T: in.Type(), S: a})
				return true
			}
			key := fr.inst + "|" + in.Name()
			st.locals[key] = r.zeroVal(et)
			fr.set(in, Val{K: KPtr, P: &Place{Kind: PLocal, Local: key, Elem: et}})
			if in.Comment != "" {
				fr.names["&"+in.Comment] = fr.vals[in]
			}
			return true
		}
		a := r.alloc(st, "new_"+in.Comment)
		if ek == KStruct {
			v := Val{K: KRef, T: in.Type(), S: a}
			fr.set(in, v)
			r.zeroObject(st, v)
		} else {
			k, _ := kindOf(et)
			if !isScalar(k) {
				fr.set(in, Val{K: KInvalid})
				r.note(fr.fname + ": alloc of unsupported type " + et.String())
				return true
			}
			p := Val{K: KPtr, T: in.Type(), P: &Place{Kind: PCell, Base: a, Elem: et}}
			fr.set(in, p)
			r.store(st, p, r.zeroVal(et))
			r.cells = append(r.cells, cellRec{r.cellKey(et), a})
			if countStores(in, 0) == 1 && storeInBlock(in) {
				r.constCand[a] = true
			}
			if in.Comment != "" {
				fr.names["&"+in.Comment] = fr.vals[in]
			}
		}
		return true

	case *ssa.FieldAddr:
		x := fr.val(st, in.X)
		if x.K != KRef {
			fr.set(in, Val{K: KInvalid})
			r.note(fmt.Sprintf("%s: FieldAddr on unsupported value at %s", fr.fname, r.eng.pos(in.Pos())))
			return true
		}
		fr.nopanic(st, "nilderef("+fr.describe(in.X)+")", sNot(sEq(x.S, "0")), in.Pos(), "nil dereference of "+fr.describe(in.X))
		x.T = in.X.Type()
		fr.guardedAccess(st, in, x)
		fr.set(in, r.fieldPtr(x, in.Field))
		return true

	case *ssa.Field:
		x := fr.val(st, in.X)
		if x.K == KStruct && in.Field < len(x.Fs) {
			fr.set(in, x.Fs[in.Field])
		} else {
			fr.set(in, r.freshVal("fld", in.Type(), st))
		}
		return true

	case *ssa.IndexAddr:
		x := fr.val(st, in.X)
		idx := fr.val(st, in.Index)
		switch xt := in.X.Type().Underlying().(type) {
		case *types.Slice:
			fr.nopanic(st, "index("+fr.describe(in.X)+")", fmt.Sprintf("(and (<= 0 %s) (< %s (s_len %s)))", idx.S, idx.S, x.S), in.Pos(), "index out of range on "+fr.describe(in.X))
			fr.set(in, r.elemPtr(sApp("s_base", x.S), fmt.Sprintf("(+ (s_off %s) %s)", x.S, idx.S), xt.Elem()))
		case *types.Pointer:
			arr := xt.Elem().Underlying().(*types.Array)
			fr.nopanic(st, "nilderef("+fr.describe(in.X)+")", sNot(sEq(x.S, "0")), in.Pos(), "nil array pointer")
			fr.nopanic(st, "index("+fr.describe(in.X)+")", fmt.Sprintf("(and (<= 0 %s) (< %s %d))", idx.S, idx.S, arr.Len()), in.Pos(), "array index out of range")
			fr.set(in, r.elemPtr(x.S, idx.S, arr.Elem()))
		default:
			fr.set(in, Val{K: KInvalid})
		}
		return true

	case *ssa.Index:
		x := fr.val(st, in.X)
		idx := fr.val(st, in.Index)
		if x.K == KStr {
			fr.nopanic(st, "index("+fr.describe(in.X)+")", fmt.Sprintf("(and (<= 0 %s) (< %s (slen %s)))", idx.S, idx.S, x.S), in.Pos(), "string index out of range")
			r.facts.DeclareFun("str_at", []string{"Str", "Int"}, "Int")
			v := Val{K: KInt, S: sApp("str_at", x.S, idx.S)}
			fr.set(in, v)
			r.assume(st, fmt.Sprintf("(and (<= 0 %s) (<= %s 255))", v.S, v.S))
			return true
		}
		fr.set(in, r.freshVal("idx", in.Type(), st))
		return true

	case *ssa.UnOp:
		return fr.unop(st, in)

	case *ssa.BinOp:
		bv := fr.binop(st, in)
		if bv.K == KInt && strings.HasPrefix(bv.S, "(") {
			// name arithmetic results: keeps index terms atomic so quantifier patterns match
			n := r.facts.Fresh(in.Name(), "Int")
			r.facts.Assert(sEq(n, bv.S))
			bv.S = n
		}
		fr.set(in, bv)
		return true

	case *ssa.Store:
		p := fr.val(st, in.Addr)
		v := fr.val(st, in.Val)
		fr.checkPtr(st, in.Addr, p, in.Pos())
		{
			ex := map[string]Val{"value": v}
			if fa, ok := in.Addr.(*ssa.FieldAddr); ok {
				ob := fr.val(st, fa.X)
				ob.T = fa.X.Type()
				ex["object"] = ob
			}
			ex["value"] = func() Val { vv := v; vv.T = in.Val.Type(); return vv }()
			fr.atAnchors(st, in, false, ex)
		}
		if fa, ok := in.Addr.(*ssa.FieldAddr); ok {
			fr.guardedWrite(st, fa, fr.val(st, fa.X), in.Pos())
		}
		p.T = in.Addr.Type()
		if p.K == KPtr && p.P != nil && p.P.Kind == PCell && r.constCand[p.P.Base] {
			vv := v
			vv.T = in.Val.Type()
			r.constCell[p.P.Base] = &vv
		}
		if !r.store(st, p, v) {
			r.note(fmt.Sprintf("%s: unsupported store at %s", fr.fname, r.eng.pos(in.Pos())))
		}
		return true

	case *ssa.Phi:
		return true

	case *ssa.Call:
		res := fr.call(st, in, &in.Call, in.Pos(), "call")
		fr.set(in, res)
		return st.pc != "false"

	case *ssa.Go:
		fr.spawn(st, in)
		return true

	case *ssa.Defer:
		key := fmt.Sprintf("d|%s|%d", fr.inst, fr.deferIndex(in))
		r.declKey(key, "Bool")
		st.mem[key] = "true"
		fr.atAnchors(st, in, false, nil)
		return true

	case *ssa.RunDefers:
		fr.curRet = ""
		for _, x := range in.Block().Instrs {
			if ret, ok := x.(*ssa.Return); ok {
				fr.curRet = fr.anchorName(ret, "return")
			}
		}
		fr.runDefers(st)
		fr.curRet = ""
		return st.pc != "false"

	case *ssa.Return:
		var v Val
		switch len(in.Results) {
		case 0:
			v = Val{K: KTuple, T: fr.fn.Signature.Results()}
		case 1:
			v = fr.val(st, in.Results[0])
		default:
			v = Val{K: KTuple, T: fr.fn.Signature.Results()}
			for _, x := range in.Results {
				v.Fs = append(v.Fs, fr.val(st, x))
			}
		}
		fr.atAnchors(st, in, false, fr.resultNames(v))
		if fr.parent == nil {
			if r.dry == 0 && st.pc != "false" {
				// cover: the return site must be reachable in the VC (an infeasible path would make
				// every obligation on it hold vacuously), unless the contract declares it dead, in
				// which case its unreachability is what has to be proved
				site := fr.anchorName(in, "return")
				dead := false
				if fr.contract != nil {
					for _, d := range fr.contract.Flags["dead"] {
						if d == site || strings.HasPrefix(d, site+" ") {
							dead = true
						}
					}
				}
				if dead {
					r.obls = append(r.obls, &Obligation{Name: fr.fname + "/dead/" + site, Kind: "dead", Func: fr.fname, Pos: r.eng.pos(in.Pos()),
						NFacts: r.facts.Len(), Pc: st.pc, Goal: "false", Text: "return site declared dead is unreachable"})
				} else {
					r.obls = append(r.obls, &Obligation{Name: fr.fname + "/vacuity/reach-" + site, Kind: "vacuity", Func: fr.fname, Pos: r.eng.pos(in.Pos()),
						NFacts: r.facts.Len(), Pc: st.pc, Goal: "false", Text: "return site reachable (expected: not refutable)"})
				}
			}
			if r.dry == 0 && st.pc != "false" {
				// every mutex this function acquired is, at each return, in the state it was in at entry
				// (a function that is meant to return holding a lock says so with `holds_on_return`)
				seenLock := map[string]bool{}
				entryHeld := fr.r.initial("g|$held")
				if fr.entry != nil {
					entryHeld = r.get(fr.entry, "g|$held")
				}
				var ltags []string
				if fr.contract != nil {
					for _, t := range fr.contract.Flags["nopanic"] {
						if strings.HasPrefix(t, "C") {
							ltags = append(ltags, t)
						}
					}
				}
				for _, l := range r.locks {
					if seenLock[l.term] || (fr.contract != nil && fr.contract.Flags["holds_on_return"] != nil) {
						continue
					}
					seenLock[l.term] = true
					goal := sEq(sSelect(r.get(st, "g|$held"), l.term), sSelect(entryHeld, l.term))
					r.require(st, "lock-balance", fr.fname, fmt.Sprintf("balanced(%s.%s)@%s", l.owner, l.field, fr.anchorName(in, "return")), goal, ltags, in.Pos(),
						"mutex "+l.owner+"."+l.field+" is held at return exactly if it was held at entry")
				}
			}
			fr.checkEnsures(st, in, v)
			fr.checkFrame(st, in)
		}
		fr.rets = append(fr.rets, retRec{st.clone(), v})
		return false

	case *ssa.Panic:
		fr.atAnchors(st, in, false, nil)
		if fr.contract == nil || fr.contract.Flags["may_panic"] == nil {
			allowed := false
			for p := fr; p != nil; p = p.parent {
				if p.contract != nil && p.contract.Flags["may_panic"] != nil {
					allowed = true
				}
			}
			if !allowed {
				fr.nopanic(st, fr.anchorName(in, "panic"), "false", in.Pos(), "explicit panic reachable")
			}
		}
		fr.panics = append(fr.panics, st.clone())
		return false

	case *ssa.If, *ssa.Jump:
		return true

	case *ssa.Extract:
		t := fr.val(st, in.Tuple)
		if t.K == KTuple && in.Index < len(t.Fs) {
			fr.set(in, t.Fs[in.Index])
		} else {
			fr.set(in, r.freshVal("ext", in.Type(), st))
		}
		return true

	case *ssa.MakeInterface:
		x := fr.val(st, in.X)
		fr.set(in, r.box(in.X.Type(), x))
		return true

	case *ssa.ChangeInterface:
		fr.set(in, fr.val(st, in.X))
		return true

	case *ssa.ChangeType:
		fr.set(in, fr.val(st, in.X))
		return true

	case *ssa.Convert:
		fr.set(in, fr.convert(st, in))
		return true

	case *ssa.TypeAssert:
		fr.typeAssert(st, in)
		return true

	case *ssa.MakeClosure:
		fn := in.Fn.(*ssa.Function)
		v := Val{K: KClosure, Fn: fn}
		for _, b := range in.Bindings {
			v.Bind = append(v.Bind, fr.val(st, b))
		}
		a := r.alloc(st, "clo")
		v.S = a
		fr.set(in, v)
		return true

	case *ssa.MakeMap:
		a := r.alloc(st, "map")
		if mt, ok := in.Type().Underlying().(*types.Map); ok {
			if dk, _, ks, _, ok := r.mapKeys(mt); ok {
				r.set(st, dk, sStore(r.get(st, dk), a, "((as const (Array "+ks+" Bool)) false)"))
			}
		}
		fr.set(in, Val{K: KRef, S: a})
		return true

	case *ssa.MakeChan:
		a := r.alloc(st, "chan")
		r.set(st, "g|$closed", sStore(r.get(st, "g|$closed"), a, "false"))
		sz := fr.val(st, in.Size)
		r.facts.DeclareFun("chancap", []string{"Int"}, "Int")
		r.assume(st, sEq(sApp("chancap", a), sz.S))
		fr.set(in, Val{K: KRef, S: a})
		return true

	case *ssa.MakeSlice:
		a := r.alloc(st, "mkslice")
		l := fr.val(st, in.Len)
		c := fr.val(st, in.Cap)
		et := in.Type().Underlying().(*types.Slice).Elem()
		if k, _ := kindOf(et); isScalar(k) {
			key := r.elemKey(et)
			_, srt := kindOf(et)
			r.set(st, key, sStore(r.get(st, key), a, r.zeroArray(srt, r.zeroVal(et).S)))
		}
		fr.set(in, Val{K: KSlice, S: fmt.Sprintf("(mk_slice %s 0 %s %s)", a, l.S, c.S)})
		return true

	case *ssa.Slice:
		fr.sliceOp(st, in)
		return true

	case *ssa.Lookup:
		fr.lookup(st, in)
		return true

	case *ssa.MapUpdate:
		m := fr.val(st, in.Map)
		k := fr.val(st, in.Key)
		v := fr.val(st, in.Value)
		fr.nopanic(st, "mapwrite("+fr.describe(in.Map)+")", sNot(sEq(m.S, "0")), in.Pos(), "assignment to entry in nil map")
		fr.guardedMapAccess(st, in.Map, in.Pos(), "write")
		fr.atAnchors(st, in, false, map[string]Val{"key": k, "value": v, "map": m})
		mt := in.Map.Type().Underlying().(*types.Map)
		if dk, vk, _, _, ok := r.mapKeys(mt); ok && isScalar(k.K) && isScalar(v.K) {
			d := r.get(st, dk)
			vv := r.get(st, vk)
			r.set(st, dk, sStore(d, m.S, sStore(sSelect(d, m.S), k.S, "true")))
			r.set(st, vk, sStore(vv, m.S, sStore(sSelect(vv, m.S), k.S, v.S)))
		} else {
			r.note(fr.fname + ": map update on unsupported map type " + mt.String())
		}
		return true

	case *ssa.Range:
		fr.rangeInit(st, in)
		return true

	case *ssa.Next:
		fr.rangeNext(st, in)
		return true

	case *ssa.Select:
		fr.selectOp(st, in)
		return true

	case *ssa.Send:
		ch := fr.val(st, in.Chan)
		v := fr.val(st, in.X)
		ch.T = in.Chan.Type()
		v.T = in.X.Type()
		fr.atAnchors(st, in, false, map[string]Val{"chan": ch, "value": v})
		fr.curChanKey = chanKey(in.Chan, in.Chan.Type())
		fr.chanSendCheck(st, in, fr.anchorName(in, "send"), ch, v)
		fr.chanOp(st, in, ch, "send", true)
		fr.nopanic(st, fr.anchorName(in, "send")+"-on-closed", sNot(sSelect(r.get(st, "g|$closed"), ch.S)), in.Pos(), "send on closed channel")
		fr.atAnchors(st, in, true, map[string]Val{"chan": ch, "value": v})
		return true

	case *ssa.SliceToArrayPointer, *ssa.MultiConvert:
		fr.set(in.(ssa.Value), r.freshVal("conv", in.(ssa.Value).Type(), st))
		return true
	}
	r.note(fmt.Sprintf("%s: unsupported instruction %T", fr.fname, ins))
	if v, ok := ins.(ssa.Value); ok {
		fr.set(v, r.freshVal("unsup", v.Type(), st))
	}
	return true
}

func (fr *Frame) anchorName(in ssa.Instruction, def string) string {
	if a := fr.anchors[in]; len(a) > 0 {
		return a[len(a)-1]
	}
	return def
}

func (fr *Frame) deferIndex(d *ssa.Defer) int {
	for i, x := range fr.defers {
		if x == d {
			return i
		}
	}
	return -1
}

func (r *Run) elemPtr(base, idx string, et types.Type) Val {
	ek, _ := kindOfElem(et)
	pt := types.NewPointer(et)
	if ek == KStruct {
		return Val{K: KRef, T: pt, S: r.elemObj(typeKey(et), base, idx)}
	}
	if !isScalar(ek) {
		return Val{K: KInvalid, T: pt}
	}
	return Val{K: KPtr, T: pt, P: &Place{Kind: PElem, Base: base, Index: idx, Elem: et}}
}

// zeroObject stores zero values in all (scalar, recursively nested) fields of a fresh object.
func (r *Run) zeroObject(st *State, p Val) {
	pt, ok := p.T.Underlying().(*types.Pointer)
	if !ok {
		return
	}
	switch u := pt.Elem().Underlying().(type) {
	case *types.Struct:
		for i := 0; i < u.NumFields(); i++ {
			fp := r.fieldPtr(p, i)
			switch fp.K {
			case KPtr:
				r.store(st, fp, r.zeroVal(u.Field(i).Type()))
			case KRef:
				if tk := typeKey(u.Field(i).Type()); tk == "sync.Mutex" || tk == "sync.RWMutex" {
					r.set(st, "g|$held", sStore(r.get(st, "g|$held"), fp.S, "false"))
				}
				r.zeroObject(st, fp)
			}
		}
	case *types.Array:
		et := u.Elem()
		if k, srt := kindOf(et); isScalar(k) {
			key := r.elemKey(et)
			r.set(st, key, sStore(r.get(st, key), p.S, r.zeroArray(srt, r.zeroVal(et).S)))
		}
	}
}

func (fr *Frame) checkPtr(st *State, addr ssa.Value, p Val, pos token.Pos) {
	if p.K == KPtr && p.P == nil && p.S != "" {
		fr.nopanic(st, "nilderef("+fr.describe(addr)+")", sNot(sEq(p.S, "0")), pos, "nil pointer dereference")
	}
	if p.K == KRef {
		fr.nopanic(st, "nilderef("+fr.describe(addr)+")", sNot(sEq(p.S, "0")), pos, "nil pointer dereference")
	}
}

func (fr *Frame) unop(st *State, in *ssa.UnOp) bool {
	r := fr.r
	x := fr.val(st, in.X)
	switch in.Op {
	case token.MUL:
		fr.checkPtr(st, in.X, x, in.Pos())
		x.T = in.X.Type()
		v := r.load(st, x)
		if v.K == KInvalid {
			v = r.freshVal("ld", in.Type(), st)
			if v.K == KInvalid {
				r.note(fmt.Sprintf("%s: unsupported load of %s at %s", fr.fname, in.Type(), r.eng.pos(in.Pos())))
			}
		}
		if fa, ok := in.X.(*ssa.FieldAddr); ok {
			fr.guardedRead(st, fa, fr.val(st, fa.X), in.Pos())
			fr.neverClosed(st, fa, v)
		}
		fr.set(in, v)
	case token.NOT:
		fr.set(in, Val{K: KBool, S: sNot(x.S)})
	case token.SUB:
		fr.set(in, Val{K: KInt, S: "(- " + x.S + ")"})
	case token.XOR:
		fr.set(in, r.freshVal("xor", in.Type(), st))
	case token.ARROW:
		fr.atAnchors(st, in, false, map[string]Val{"chan": x})
		fr.chanOp(st, in, x, "recv", true)
		et := in.X.Type().Underlying().(*types.Chan).Elem()
		v := r.freshVal("recv", et, st)
		okv := r.freshVal("recvok", types.Typ[types.Bool], st)
		if z := r.zeroVal(et); isScalar(z.K) && isScalar(v.K) {
			r.facts.Assert(sImp(sNot(okv.S), sEq(v.S, z.S)))
		}
		x.T = in.X.Type()
		v.T = et
		r.assume(st, sImp(sAnd(sNot(sSelect(r.get(st, "g|$closed"), x.S)), r.notVolChan(x.S)), okv.S))
		r.set(st, "g|$recvd", sStore(r.get(st, "g|$recvd"), x.S, "true"))
		fr.curChanKey = chanKey(in.X, in.X.Type())
		fr.chanRecvAssume(st, x, v, okv)
		if in.CommaOk {
			fr.set(in, Val{K: KTuple, Fs: []Val{v, okv}})
		} else {
			fr.set(in, v)
		}
		fr.atAnchors(st, in, true, map[string]Val{"chan": x, "value": v, "ok": okv})
	default:
		fr.set(in, r.freshVal("unop", in.Type(), st))
	}
	return true
}

func pow2(n int) string {
	switch n {
	case 8:
		return "256"
	case 16:
		return "65536"
	case 32:
		return "4294967296"
	case 64:
		return "18446744073709551616"
	}
	return "18446744073709551616"
}

func bitsOf(t types.Type) (bits int, signed bool, ok bool) {
	b, isb := t.Underlying().(*types.Basic)
	if !isb || b.Info()&types.IsInteger == 0 {
		return
	}
	signed = b.Info()&types.IsUnsigned == 0
	switch b.Kind() {
	case types.Int8, types.Uint8:
		bits = 8
	case types.Int16, types.Uint16:
		bits = 16
	case types.Int32, types.Uint32:
		bits = 32
	default:
		bits = 64
	}
	return bits, signed, true
}

// wrap reduces a mathematical integer into the range of type t (Go's wrap-around).
func wrap(t types.Type, x string) string {
	bits, signed, ok := bitsOf(t)
	if !ok {
		return x
	}
	m := pow2(bits)
	if !signed {
		return "(mod " + x + " " + m + ")"
	}
	half := map[int]string{8: "128", 16: "32768", 32: "2147483648", 64: "9223372036854775808"}[bits]
	return "(- (mod (+ " + x + " " + half + ") " + m + ") " + half + ")"
}

func (fr *Frame) binop(st *State, in *ssa.BinOp) Val {
	r := fr.r
	x := fr.val(st, in.X)
	y := fr.val(st, in.Y)
	xs, ys := x.S, y.S
	if x.K == KPtr {
		xs = r.ptrTerm(x)
	}
	if y.K == KPtr {
		ys = r.ptrTerm(y)
	}
	switch in.Op {
	case token.EQL, token.NEQ:
		var eq string
		switch {
		case x.K == KStruct || y.K == KStruct || x.K == KInvalid || y.K == KInvalid:
			eq = r.facts.Fresh("cmp", "Bool")
		case x.K == KSlice || y.K == KSlice:
			// only comparison with nil is legal
			s := xs
			if in.X.Type().Underlying() != in.Y.Type().Underlying() || isNilConst(in.X) {
				if isNilConst(in.X) {
					s = ys
				}
			}
			eq = sEq(sApp("s_base", s), "0")
		case x.K == KClosure || y.K == KClosure:
			eq = "false"
		default:
			eq = sEq(xs, ys)
		}
		if in.Op == token.NEQ {
			return Val{K: KBool, S: sNot(eq)}
		}
		return Val{K: KBool, S: eq}
	case token.LSS, token.LEQ, token.GTR, token.GEQ:
		op := map[token.Token]string{token.LSS: "<", token.LEQ: "<=", token.GTR: ">", token.GEQ: ">="}[in.Op]
		if x.K == KStr {
			r.facts.DeclareFun("str_lt", []string{"Str", "Str"}, "Bool")
			switch in.Op {
			case token.LSS:
				return Val{K: KBool, S: sApp("str_lt", xs, ys)}
			case token.GTR:
				return Val{K: KBool, S: sApp("str_lt", ys, xs)}
			case token.LEQ:
				return Val{K: KBool, S: sNot(sApp("str_lt", ys, xs))}
			default:
				return Val{K: KBool, S: sNot(sApp("str_lt", xs, ys))}
			}
		}
		return Val{K: KBool, S: "(" + op + " " + xs + " " + ys + ")"}
	case token.ADD:
		if x.K == KStr {
			t := sApp("scat", xs, ys)
			if !r.once["scat|"+t] {
				r.once["scat|"+t] = true
				r.facts.Assert(fmt.Sprintf("(= (slen %s) (+ (slen %s) (slen %s)))", t, xs, ys))
			}
			return Val{K: KStr, S: t}
		}
		return Val{K: KInt, S: wrapIfNeeded(in.Type(), "(+ "+xs+" "+ys+")", r, st, fr, in)}
	case token.SUB:
		return Val{K: KInt, S: wrapIfNeeded(in.Type(), "(- "+xs+" "+ys+")", r, st, fr, in)}
	case token.MUL:
		return Val{K: KInt, S: wrapIfNeeded(in.Type(), "(* "+xs+" "+ys+")", r, st, fr, in)}
	case token.QUO:
		fr.nopanic(st, "divzero", sNot(sEq(ys, "0")), in.Pos(), "integer division by zero")
		// Go truncates toward zero
		q := fmt.Sprintf("(ite (>= %[1]s 0) (div %[1]s %[2]s) (- (div (- %[1]s) %[2]s)))", xs, ys)
		return Val{K: KInt, S: q}
	case token.REM:
		fr.nopanic(st, "divzero", sNot(sEq(ys, "0")), in.Pos(), "integer division by zero")
		q := fmt.Sprintf("(ite (>= %[1]s 0) (mod %[1]s %[2]s) (- (mod (- %[1]s) %[2]s)))", xs, ys)
		return Val{K: KInt, S: q}
	case token.AND, token.OR, token.XOR, token.SHL, token.SHR, token.AND_NOT:
		if x.K == KBool {
			switch in.Op {
			case token.AND:
				return Val{K: KBool, S: sAnd(xs, ys)}
			case token.OR:
				return Val{K: KBool, S: sOr(xs, ys)}
			}
		}
		return r.freshVal("bitop", in.Type(), st)
	}
	return r.freshVal("binop", in.Type(), st)
}

// wrapIfNeeded: signed 64-bit/int arithmetic is mathematical with an overflow note;
// narrower or unsigned types wrap exactly.
func wrapIfNeeded(t types.Type, term string, r *Run, st *State, fr *Frame, in *ssa.BinOp) string {
	bits, signed, ok := bitsOf(t)
	if !ok {
		return term
	}
	if signed && bits == 64 {
		r.assumes["signed 64-bit integer arithmetic treated as mathematical (no overflow obligations generated)"] = true
		return term
	}
	return wrap(t, term)
}

func isNilConst(v ssa.Value) bool {
	c, ok := v.(*ssa.Const)
	return ok && c.Value == nil
}

func (fr *Frame) convert(st *State, in *ssa.Convert) Val {
	r := fr.r
	x := fr.val(st, in.X)
	from, to := in.X.Type(), in.Type()
	fk, _ := kindOf(from)
	tk, _ := kindOf(to)
	switch {
	case fk == KInt && tk == KInt:
		flo, fhi, ok1 := intRange(from)
		tlo, thi, ok2 := intRange(to)
		if ok1 && ok2 && flo == tlo && fhi == thi {
			return Val{K: KInt, S: x.S}
		}
		fb, fs, _ := bitsOf(from)
		tb, ts, _ := bitsOf(to)
		if fs == ts && tb >= fb {
			return Val{K: KInt, S: x.S}
		}
		if !fs && ts && tb > fb {
			return Val{K: KInt, S: x.S}
		}
		return Val{K: KInt, S: wrap(to, x.S)}
	case fk == KStr && tk == KStr:
		return x
	case fk == KSlice && tk == KStr:
		// string(bytes)
		et := from.Underlying().(*types.Slice).Elem()
		if b, ok := et.Underlying().(*types.Basic); ok && b.Kind() == types.Uint8 {
			key := r.elemKey(et)
			t := fmt.Sprintf("(bytes2str (select %s (s_base %s)) (s_off %s) (s_len %s))", r.get(st, key), x.S, x.S, x.S)
			n := r.facts.Fresh("str", "Str")
			r.facts.Assert(sEq(n, t))
			r.facts.Assert(fmt.Sprintf("(= (slen %s) (s_len %s))", n, x.S))
			return Val{K: KStr, S: n}
		}
	case fk == KStr && tk == KSlice:
		et := to.Underlying().(*types.Slice).Elem()
		if b, ok := et.Underlying().(*types.Basic); ok && b.Kind() == types.Uint8 {
			a := r.alloc(st, "bytes")
			key := r.elemKey(et)
			inner := r.facts.Fresh("bytesarr", "(Array Int Int)")
			r.set(st, key, sStore(r.get(st, key), a, inner))
			r.facts.Assert(fmt.Sprintf("(= (bytes2str %s 0 (slen %s)) %s)", inner, x.S, x.S))
			return Val{K: KSlice, S: fmt.Sprintf("(mk_slice %s 0 (slen %s) (slen %s))", a, x.S, x.S)}
		}
	}
	return r.freshVal("conv", to, st)
}

func (fr *Frame) implements(dyn types.Type, iface *types.Interface) bool {
	return types.Implements(dyn, iface)
}

func (fr *Frame) typeAssert(st *State, in *ssa.TypeAssert) {
	r := fr.r
	x := fr.val(st, in.X)
	var okT string
	var v Val
	if it, isIface := in.AssertedType.Underlying().(*types.Interface); isIface {
		// interface-to-interface
		if xi, ok := in.X.Type().Underlying().(*types.Interface); ok && types.Implements(in.X.Type(), it) && xi != nil {
			okT = sNot(sEq(x.S, "0"))
		} else {
			pn := sym("impl|" + typeKey(in.AssertedType))
			r.facts.DeclareFun(pn, []string{"Int"}, "Bool")
			okT = sAnd(sNot(sEq(x.S, "0")), sApp(pn, sApp("itag", x.S)))
		}
		v = Val{K: KIface, S: x.S, Fn: x.Fn}
	} else {
		tag := r.typeTag(in.AssertedType)
		okT = fmt.Sprintf("(= (itag %s) %d)", x.S, tag)
		v = r.unbox(in.AssertedType, x.S)
		if v.K == KInvalid {
			v = r.freshVal("ta", in.AssertedType, st)
		} else {
			n := r.facts.Fresh("ta", scalarSort(v.K))
			r.facts.Assert(sEq(n, v.S))
			tk := typeKey(in.AssertedType)
			r.facts.Assert(sImp(okT, sEq(sApp(sym("box|"+tk), n), x.S)))
			v.S = n
			v.T = in.AssertedType
			r.assumeWellTypedLoaded(v, st)
		}
	}
	fr.atAnchors(st, in, false, map[string]Val{"x": x, "ok": boolVal(okT)})
	if in.CommaOk {
		okc := r.facts.Fresh("taok", "Bool")
		r.facts.Assert(sEq(okc, okT))
		zero := r.zeroVal(in.AssertedType)
		var res Val
		if zero.K == v.K && isScalar(v.K) {
			res = Val{K: v.K, T: in.AssertedType, S: sIte(okc, v.S, zero.S), Fn: v.Fn}
		} else {
			res = v
		}
		fr.set(in, Val{K: KTuple, Fs: []Val{res, boolVal(okc)}})
		return
	}
	fr.nopanic(st, fr.anchorName(in, "typeassert")+"("+typeKey(in.AssertedType)+")", okT, in.Pos(),
		"type assertion "+fr.describe(in.X)+".("+typeKey(in.AssertedType)+") may fail")
	fr.set(in, v)
}

func (r *Run) assumeWellTypedLoaded(v Val, st *State) {
	switch v.K {
	case KInt:
		if lo, hi, ok := intRange(v.T); ok {
			r.facts.Assert(fmt.Sprintf("(and (<= %s %s) (<= %s %s))", lo, v.S, v.S, hi))
		}
	case KSlice:
		r.assumeWellTyped(v, st)
	case KIface:
		r.facts.Assert(fmt.Sprintf("(= (= %s 0) (= (itag %s) 0))", v.S, v.S))
	}
}

func (fr *Frame) sliceOp(st *State, in *ssa.Slice) {
	r := fr.r
	x := fr.val(st, in.X)
	var lo, hi string
	if in.Low != nil {
		lo = fr.val(st, in.Low).S
	} else {
		lo = "0"
	}
	switch xt := in.X.Type().Underlying().(type) {
	case *types.Slice:
		if in.High != nil {
			hi = fr.val(st, in.High).S
		} else {
			hi = sApp("s_len", x.S)
		}
		fr.nopanic(st, "slice("+fr.describe(in.X)+")", fmt.Sprintf("(and (<= 0 %s) (<= %s %s) (<= %s (s_cap %s)))", lo, lo, hi, hi, x.S), in.Pos(), "slice bounds out of range")
		fr.set(in, Val{K: KSlice, S: fmt.Sprintf("(mk_slice (s_base %[1]s) (+ (s_off %[1]s) %[2]s) (- %[3]s %[2]s) (- (s_cap %[1]s) %[2]s))", x.S, lo, hi)})
	case *types.Basic: // string
		if in.High != nil {
			hi = fr.val(st, in.High).S
		} else {
			hi = sApp("slen", x.S)
		}
		fr.nopanic(st, "slice("+fr.describe(in.X)+")", fmt.Sprintf("(and (<= 0 %s) (<= %s %s) (<= %s (slen %s)))", lo, lo, hi, hi, x.S), in.Pos(), "string slice bounds out of range")
		t := sApp("substr", x.S, lo, hi)
		n := r.facts.Fresh("substr", "Str")
		r.facts.Assert(sEq(n, t))
		r.assume(st, fmt.Sprintf("(= (slen %s) (- %s %s))", n, hi, lo))
		fr.set(in, Val{K: KStr, S: n})
	case *types.Pointer: // *array
		arr := xt.Elem().Underlying().(*types.Array)
		if in.High != nil {
			hi = fr.val(st, in.High).S
		} else {
			hi = fmt.Sprint(arr.Len())
		}
		fr.nopanic(st, "nilderef("+fr.describe(in.X)+")", sNot(sEq(x.S, "0")), in.Pos(), "nil array pointer")
		fr.nopanic(st, "slice("+fr.describe(in.X)+")", fmt.Sprintf("(and (<= 0 %s) (<= %s %s) (<= %s %d))", lo, lo, hi, hi, arr.Len()), in.Pos(), "slice bounds out of range")
		ln := fmt.Sprintf("(- %s %s)", hi, lo)
		cp := fmt.Sprintf("(- %d %s)", arr.Len(), lo)
		if lo == "0" {
			ln, cp = hi, fmt.Sprint(arr.Len())
		}
		fr.set(in, Val{K: KSlice, S: fmt.Sprintf("(mk_slice %s %s %s %s)", x.S, lo, ln, cp)})
		if b, ok := arr.Elem().Underlying().(*types.Basic); ok && b.Kind() == types.String && lo == "0" && in.High == nil && arr.Len() <= 16 {
			// a string slice literal: its abstract content (sequence view) is its elements in order
			E := r.get(st, r.elemKey(arr.Elem()))
			a := r.facts.Define("litarr", "(Array Int Str)", sSelect(E, x.S))
			t := "seq_nil"
			for i := int64(0); i < arr.Len(); i++ {
				t = fmt.Sprintf("(seq_snoc %s (select %s %d))", t, a, i)
			}
			r.facts.Assert(sImp(st.pc, fmt.Sprintf("(= (seq_of_str %s 0 %d) %s)", a, arr.Len(), t)))
		}
	default:
		fr.set(in, r.freshVal("slice", in.Type(), st))
	}
}

func (fr *Frame) lookup(st *State, in *ssa.Lookup) {
	r := fr.r
	x := fr.val(st, in.X)
	k := fr.val(st, in.Index)
	mt, ok := in.X.Type().Underlying().(*types.Map)
	if ok {
		fr.guardedMapAccess(st, in.X, in.Pos(), "read")
	}
	if !ok {
		// string index
		fr.nopanic(st, "index("+fr.describe(in.X)+")", fmt.Sprintf("(and (<= 0 %s) (< %s (slen %s)))", k.S, k.S, x.S), in.Pos(), "string index out of range")
		fr.set(in, r.freshVal("stridx", in.Type(), st))
		return
	}
	dk, vk, _, _, ok2 := r.mapKeys(mt)
	if !ok2 || !isScalar(k.K) {
		fr.set(in, r.freshVal("lookup", in.Type(), st))
		r.note(fr.fname + ": lookup in unsupported map type " + mt.String())
		return
	}
	present := sAnd(sNot(sEq(x.S, "0")), sSelect(sSelect(r.get(st, dk), x.S), k.S))
	raw := sSelect(sSelect(r.get(st, vk), x.S), k.S)
	vkind, vsrt := kindOf(mt.Elem())
	n := r.facts.Fresh("mv", vsrt)
	r.facts.Assert(sEq(n, raw))
	lv := Val{K: vkind, T: mt.Elem(), S: n}
	r.assumeWellTypedLoaded(lv, st)
	if vkind == KRef || vkind == KPtr {
		r.facts.Assert(fmt.Sprintf("(<= (root %s) %s)", n, r.get(st, "g|$heap")))
	}
	zero := r.zeroVal(mt.Elem())
	val := Val{K: vkind, T: mt.Elem(), S: sIte(present, n, zero.S)}
	if in.CommaOk {
		fr.set(in, Val{K: KTuple, Fs: []Val{val, boolVal(present)}})
	} else {
		fr.set(in, val)
	}
}

// rangeHome: the frame whose contract names this map iteration (rposN, rkeysN, ...) and its
// ordinal there: the frame itself, or for a helper without a contract inlined into a function
// under contract that function, with the iteration numbered as if it stood at the call.
// notVolChan: no goroutine spawned so far in this run closes the channel.
func (r *Run) notVolChan(ch string) string {
	var cs []string
	for _, v := range r.volChans {
		cs = append(cs, sOr(sNot(v[0]), sNot(sEq(ch, v[1]))))
	}
	return sAnd(cs...)
}

func (fr *Frame) rangeHome(in *ssa.Range) (*Frame, int) {
	k := fr.rangeOrd[in]
	if fr.contract != nil || fr.parent == nil {
		return fr, k
	}
	f := fr
	for f.contract == nil {
		if f.parent == nil || f.callSite == nil || f.parent.inlineBase == nil || f.parent.inlineBase[f.callSite] == nil {
			return fr, fr.rangeOrd[in]
		}
		if f.fn != nil && f.fn.Parent() != nil {
			return fr, fr.rangeOrd[in]
		}
		k += f.parent.inlineBase[f.callSite]["range"]
		f = f.parent
	}
	return f, k
}

func (fr *Frame) rangeInit(st *State, in *ssa.Range) {
	r := fr.r
	hf, ord := fr.rangeHome(in)
	x := fr.val(st, in.X)
	posKey := fmt.Sprintf("it|%s|%d", hf.inst, ord)
	r.declKey(posKey, "Int")
	st.mem[posKey] = "0"
	mt, ok := in.X.Type().Underlying().(*types.Map)
	if !ok {
		r.note(fr.fname + ": range over non-map (string) abstracted")
		return
	}
	dk, vk, ks, vs, ok2 := r.mapKeys(mt)
	if !ok2 {
		r.note(fr.fname + ": range over unsupported map type")
		return
	}
	// ghost key sequence: distinct keys enumerating the domain at range start
	seq := r.facts.Fresh(fmt.Sprintf("rkeys%d", ord), "(Array Int "+ks+")")
	n := r.facts.Fresh(fmt.Sprintf("rn%d", ord), "Int")
	idxf := sym(fmt.Sprintf("ridx!%s!%d!%d", hf.inst, ord, r.facts.fresh))
	r.facts.DeclareFun(idxf, []string{ks}, "Int")
	dom := r.facts.Fresh("rdom", "(Array "+ks+" Bool)")
	vals := r.facts.Fresh("rvals", "(Array "+ks+" "+vs+")")
	r.facts.Assert(sEq(dom, sIte(sEq(x.S, "0"), "((as const (Array "+ks+" Bool)) false)", sSelect(r.get(st, dk), x.S))))
	r.facts.Assert(sEq(vals, sSelect(r.get(st, vk), x.S)))
	r.facts.Assert("(>= " + n + " 0)")
	r.facts.Assert(fmt.Sprintf("(forall ((i Int)) (! (=> (and (<= 0 i) (< i %s)) (and (select %s (select %s i)) (= (%s (select %s i)) i))) :pattern ((select %s i))))", n, dom, seq, idxf, seq, seq))
	r.facts.Assert(fmt.Sprintf("(forall ((k %s)) (! (=> (select %s k) (and (<= 0 (%s k)) (< (%s k) %s) (= (select %s (%s k)) k))) :pattern ((select %s k)) :pattern ((%s k))))", ks, dom, idxf, idxf, n, seq, idxf, dom, idxf))
	if hf.rangeIdxFn == nil {
		hf.rangeIdxFn = map[int]string{}
	}
	hf.rangeIdxFn[ord] = idxf
	hf.names[fmt.Sprintf("rkeys%d", ord)] = Val{K: KSpec, Sort: "(Array Int " + ks + ")", S: seq, T: types.NewSlice(mt.Key())}
	hf.names[fmt.Sprintf("rn%d", ord)] = intVal(n)
	hf.names[fmt.Sprintf("rdom%d", ord)] = Val{K: KSpec, Sort: "(Array " + ks + " Bool)", S: dom}
	hf.names[fmt.Sprintf("rvals%d", ord)] = Val{K: KSpec, Sort: "(Array " + ks + " " + vs + ")", S: vals, T: mt}
	fr.set(in, Val{K: KSpec, S: fmt.Sprint(ord), Sort: "iter"})
}

func (fr *Frame) rangeNext(st *State, in *ssa.Next) {
	r := fr.r
	rg, ok := in.Iter.(*ssa.Range)
	if !ok || in.IsString {
		fr.set(in, r.freshVal("next", in.Type(), st))
		return
	}
	hf, ord := fr.rangeHome(rg)
	seq, ok1 := hf.names[fmt.Sprintf("rkeys%d", ord)]
	n, ok2 := hf.names[fmt.Sprintf("rn%d", ord)]
	vals, ok3 := hf.names[fmt.Sprintf("rvals%d", ord)]
	if !ok1 || !ok2 || !ok3 {
		fr.set(in, r.freshVal("next", in.Type(), st))
		return
	}
	posKey := fmt.Sprintf("it|%s|%d", hf.inst, ord)
	pos := r.get(st, posKey)
	mt := rg.X.Type().Underlying().(*types.Map)
	kk, ksrt := kindOf(mt.Key())
	vkind, vsrt := kindOf(mt.Elem())
	okT := fmt.Sprintf("(< %s %s)", pos, n.S)
	kc := r.facts.Fresh("rk", ksrt)
	r.facts.Assert(sEq(kc, sSelect(seq.S, pos)))
	vc := r.facts.Fresh("rv", vsrt)
	r.facts.Assert(sEq(vc, sSelect(vals.S, kc)))
	kv := Val{K: kk, T: mt.Key(), S: kc}
	vv := Val{K: vkind, T: mt.Elem(), S: vc}
	r.assumeWellTypedLoaded(kv, st)
	r.assumeWellTypedLoaded(vv, st)
	if vkind == KRef || vkind == KPtr {
		r.facts.Assert(fmt.Sprintf("(<= (root %s) %s)", vc, r.get(st, "g|$heap")))
	}
	r.assume(st, "(>= "+pos+" 0)")
	st.mem[posKey] = r.facts.Define("rpos", "Int", "(+ "+pos+" 1)")
	fr.set(in, Val{K: KTuple, Fs: []Val{boolVal(okT), kv, vv}})
}

func (fr *Frame) selectOp(st *State, in *ssa.Select) {
	r := fr.r
	n := len(in.States)
	idx := r.facts.Fresh("selidx", "Int")
	lo := "0"
	if !in.Blocking {
		lo = "(- 1)"
	}
	r.facts.Assert(fmt.Sprintf("(and (<= %s %s) (< %s %d))", lo, idx, idx, n))
	okv := r.facts.Fresh("selok", "Bool")
	res := Val{K: KTuple, Fs: []Val{intVal(idx), boolVal(okv)}}
	names := map[string]Val{"index": intVal(idx), "recvok": boolVal(okv)}
	recvdAfter := r.get(st, "g|$recvd")
	for i, s := range in.States {
		ch := fr.val(st, s.Chan)
		names[fmt.Sprintf("chan%d", i)] = ch
		if s.Dir == types.RecvOnly {
			et := s.Chan.Type().Underlying().(*types.Chan).Elem()
			v := r.freshVal(fmt.Sprintf("selrecv%d", i), et, st)
			if z := r.zeroVal(et); isScalar(z.K) && isScalar(v.K) {
				r.facts.Assert(sImp(sAnd(sEq(idx, fmt.Sprint(i)), sNot(okv)), sEq(v.S, z.S)))
			}
			res.Fs = append(res.Fs, v)
			names[fmt.Sprintf("recv%d", i)] = v
			sub := st.clone()
			sub.pc = sAnd(st.pc, sEq(idx, fmt.Sprint(i)))
			ch.T = s.Chan.Type()
			v.T = et
			r.assume(sub, sImp(sAnd(sNot(sSelect(r.get(st, "g|$closed"), ch.S)), r.notVolChan(ch.S)), okv))
			fr.curChanKey = chanKey(s.Chan, s.Chan.Type())
			fr.chanRecvAssume(sub, ch, v, boolVal(okv))
			recvdAfter = sIte(sEq(idx, fmt.Sprint(i)), sStore(r.get(st, "g|$recvd"), ch.S, "true"), recvdAfter)
		} else {
			sv := fr.val(st, s.Send)
			sv.T = s.Send.Type()
			names[fmt.Sprintf("sent%d", i)] = sv
			sub := st.clone()
			sub.pc = sAnd(st.pc, sEq(idx, fmt.Sprint(i)))
			ch.T = s.Chan.Type()
			fr.curChanKey = chanKey(s.Chan, s.Chan.Type())
			fr.chanSendCheck(sub, in, fr.anchorName(in, "select")+fmt.Sprintf(".send%d", i), ch, sv)
			fr.r.require(sub, "nopanic", fr.oblFunc(), fr.oblName(fr.anchorName(in, "select")+fmt.Sprintf(".send%d-on-closed", i)),
				sNot(sSelect(r.get(st, "g|$closed"), ch.S)), fr.nopanicTags(), in.Pos(), "send on closed channel in select")
		}
	}
	fr.atAnchors(st, in, false, names)
	fr.selectDiscipline(st, in, names)
	r.set(st, "g|$recvd", recvdAfter)
	fr.set(in, res)
	r.names[fr.inst+":"+fr.anchorName(in, "select")+".index"] = idx
	fr.atAnchors(st, in, true, names)
}

// ---------------------------------------------------------------------------

func trimParen(s string) string { return strings.TrimSpace(s) }

// zeroArray: an (Array Int srt) that is zero everywhere.
func (r *Run) zeroArray(srt, zero string) string {
	if srt == "Int" || srt == "Bool" {
		return "((as const (Array Int " + srt + ")) " + zero + ")"
	}
	a := r.facts.Fresh("zarr", "(Array Int "+srt+")")
	r.facts.Assert(fmt.Sprintf("(forall ((i Int)) (! (= (select %s i) %s) :pattern ((select %s i))))", a, zero, a))
	return a
}

// countStores counts the store instructions that can write the variable cell `a`,
// following captures into closures. A result of 1 means the variable is write-once.
func countStores(a ssa.Value, depth int) int {
	if depth > 4 {
		return 99
	}
	refs := a.Referrers()
	if refs == nil {
		return 99
	}
	n := 0
	for _, ref := range *refs {
		switch x := ref.(type) {
		case *ssa.Store:
			if x.Addr == a {
				n++
			} else {
				return 99 // the address itself is stored somewhere
			}
		case *ssa.UnOp:
			// load
		case *ssa.MakeClosure:
			fn := x.Fn.(*ssa.Function)
			for i, b := range x.Bindings {
				if b == a && i < len(fn.FreeVars) {
					n += countStores(fn.FreeVars[i], depth+1)
				}
			}
		case *ssa.DebugRef:
		default:
			return 99 // passed to a call, phi, etc.
		}
	}
	return n
}

// storeInBlock: the (single) direct store to the alloc is in the alloc's own block,
// i.e. it is the variable's initialisation and dominates every later load.
func storeInBlock(a *ssa.Alloc) bool {
	for _, ref := range *a.Referrers() {
		if st, ok := ref.(*ssa.Store); ok && st.Addr == a {
			return st.Block() == a.Block()
		}
	}
	return false
}
