#!/bin/bash
# usage: try_patch.sh <patch.diff> <property> [more properties...]
# applies the patch to a scratch copy of /repo (never to /repo) and runs the property checks on it
patch=$1; shift
tmp=$(mktemp -d /var/tmp/gpv.XXXXXX)
if [ -n "$FROM_HEAD" ]; then mkdir -p $tmp/repo && git -C /repo archive HEAD | tar -x -C $tmp/repo; else rsync -a --exclude .git /repo/ $tmp/repo/; fi
if ! (cd $tmp/repo && patch -p1 -s < $patch); then echo "PATCH-FAILED $patch"; rm -rf $tmp; exit 3; fi
rc=0
for prop in "$@"; do
  out=$(GPV_REPO=$tmp/repo /verif/bin/gpverify check -p $prop -scratch $tmp/out 2>&1); code=$?
  echo "$prop exit=$code $(echo "$out" | tail -1)"
  echo "$out" | grep '^VIOLATION\|^UNDECIDED' | sed 's/replay=[^ ]* //' | head -${MAXV:-4}
  [ $code -ne 0 ] && rc=$code
done
rm -rf $tmp
exit $rc
