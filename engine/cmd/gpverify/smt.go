package main

// SMT-LIB helpers: terms are plain strings; facts are an ordered list so that an
// obligation is checked against exactly the declarations/assumptions that precede it.

import (
	"bytes"
	"context"
	"fmt"
	"os"
	"os/exec"
	"sort"
	"strings"
	"time"
)

const smtPreamble = `(set-option :produce-models true)
(set-logic ALL)
(declare-sort Str 0)
(declare-fun slen (Str) Int)
(declare-fun scat (Str Str) Str)
(declare-fun substr (Str Int Int) Str)
(declare-datatypes ((Slice 0)) (((mk_slice (s_base Int) (s_off Int) (s_len Int) (s_cap Int)))))
(declare-fun itag (Int) Int)
(declare-fun refkind (Int) Int)
(declare-fun root (Int) Int)
(assert (= (root 0) 0))
(declare-fun bytes2str ((Array Int Int) Int Int) Str)
(declare-fun str_empty () Str)
(declare-fun char_str (Int) Str)
(assert (= (slen str_empty) 0))
(assert (forall ((s Str)) (! (>= (slen s) 0) :pattern ((slen s)))))
(assert (forall ((s Str)) (! (=> (= (slen s) 0) (= s str_empty)) :pattern ((slen s)))))
(assert (= (itag 0) 0))
(declare-sort SeqStr 0)
(declare-fun seq_nil () SeqStr)
(declare-fun seq_snoc (SeqStr Str) SeqStr)
(declare-fun seq_cat (SeqStr SeqStr) SeqStr)
(declare-fun seq_of_str ((Array Int Str) Int Int) SeqStr)
(assert (forall ((a (Array Int Str)) (o Int)) (! (= (seq_of_str a o 0) seq_nil) :pattern ((seq_of_str a o 0)))))
`

func sAnd(xs ...string) string {
	var ys []string
	for _, x := range xs {
		if x == "true" || x == "" {
			continue
		}
		if x == "false" {
			return "false"
		}
		ys = append(ys, x)
	}
	switch len(ys) {
	case 0:
		return "true"
	case 1:
		return ys[0]
	}
	return "(and " + strings.Join(ys, " ") + ")"
}

func sOr(xs ...string) string {
	var ys []string
	for _, x := range xs {
		if x == "false" || x == "" {
			continue
		}
		if x == "true" {
			return "true"
		}
		ys = append(ys, x)
	}
	switch len(ys) {
	case 0:
		return "false"
	case 1:
		return ys[0]
	}
	return "(or " + strings.Join(ys, " ") + ")"
}

func sNot(x string) string {
	switch x {
	case "true":
		return "false"
	case "false":
		return "true"
	}
	if strings.HasPrefix(x, "(not ") && balanced(x[5:len(x)-1]) {
		return x[5 : len(x)-1]
	}
	return "(not " + x + ")"
}

func balanced(s string) bool {
	d := 0
	inq := false
	for _, c := range s {
		switch {
		case c == '|':
			inq = !inq
		case inq:
		case c == '(':
			d++
		case c == ')':
			d--
			if d < 0 {
				return false
			}
		}
	}
	return d == 0
}

func sImp(a, b string) string {
	if a == "true" {
		return b
	}
	if a == "false" || b == "true" {
		return "true"
	}
	return "(=> " + a + " " + b + ")"
}

func sEq(a, b string) string {
	if a == b {
		return "true"
	}
	return "(= " + a + " " + b + ")"
}

func sIte(c, a, b string) string {
	if c == "true" {
		return a
	}
	if c == "false" {
		return b
	}
	if a == b {
		return a
	}
	return "(ite " + c + " " + a + " " + b + ")"
}

func sInt(n int64) string {
	if n < 0 {
		return fmt.Sprintf("(- %d)", -n)
	}
	return fmt.Sprintf("%d", n)
}

func sApp(f string, args ...string) string {
	if len(args) == 0 {
		return f
	}
	return "(" + f + " " + strings.Join(args, " ") + ")"
}

func sSelect(a, i string) string   { return "(select " + a + " " + i + ")" }
func sStore(a, i, v string) string { return "(store " + a + " " + i + " " + v + ")" }

// quote an SMT symbol
func sym(s string) string {
	ok := true
	for _, c := range s {
		if !(c >= 'a' && c <= 'z' || c >= 'A' && c <= 'Z' || c >= '0' && c <= '9' || c == '_' || c == '.' || c == '!' || c == '$') {
			ok = false
			break
		}
	}
	if ok && len(s) > 0 && !(s[0] >= '0' && s[0] <= '9') {
		return s
	}
	s = strings.ReplaceAll(s, "|", "!")
	s = strings.ReplaceAll(s, "\\", "!")
	return "|" + s + "|"
}

// Facts is the ordered list of SMT commands (declarations and assertions).
type Facts struct {
	lines    []string
	declared map[string]string // symbol -> signature
	fresh    int
	noDefine int
}

func newFacts() *Facts { return &Facts{declared: map[string]string{}} }

func (f *Facts) Len() int { return len(f.lines) }

func (f *Facts) Truncate(n int) {
	f.lines = f.lines[:n]
}

func (f *Facts) add(line string) { f.lines = append(f.lines, line) }

func (f *Facts) Assert(t string) {
	if t == "true" {
		return
	}
	f.add("(assert " + t + ")")
}

// DeclareFun declares (once) an uninterpreted function.
func (f *Facts) DeclareFun(name string, args []string, ret string) {
	sig := "(" + strings.Join(args, " ") + ") " + ret
	if old, ok := f.declared[name]; ok {
		if old != sig {
			panic(fmt.Sprintf("symbol %s redeclared: %s vs %s", name, old, sig))
		}
		return
	}
	f.declared[name] = sig
	f.add("(declare-fun " + name + " " + sig + ")")
}

func (f *Facts) Const(name, srt string) string {
	f.DeclareFun(name, nil, srt)
	return name
}

func (f *Facts) Fresh(prefix, srt string) string {
	f.fresh++
	n := sym(fmt.Sprintf("%s!%d", prefix, f.fresh))
	f.declared[n] = "() " + srt
	f.add("(declare-fun " + n + " () " + srt + ")")
	return n
}

// Define introduces a name for a term (keeps formulas linear in size).
func (f *Facts) Define(prefix, srt, term string) string {
	if len(term) < 40 || f.noDefine > 0 {
		return term
	}
	n := f.Fresh(prefix, srt)
	f.add("(assert (= " + n + " " + term + "))")
	return n
}

// undeclare symbols declared after position n (used when rolling back a dry run)
func (f *Facts) Rollback(n int, declSnapshot map[string]string, fresh int) {
	f.lines = f.lines[:n]
	f.declared = declSnapshot
	_ = fresh // keep counter monotone so names never collide
}

func (f *Facts) SnapshotDecl() map[string]string {
	m := make(map[string]string, len(f.declared))
	for k, v := range f.declared {
		m[k] = v
	}
	return m
}

type SolverResult struct {
	Status string // unsat | sat | unknown | timeout | error
	Solver string
	Time   float64
	Output string
	Model  string
}

var solverCmds = map[string][]string{
	"z3-new": {"z3-new", "-smt2", "-T:%d"},
	"z3":     {"z3", "-smt2", "-T:%d"},
	"cvc5":   {"cvc5", "--lang=smt2", "--tlimit=%d000"},
}

func runSolver(name, file string, timeoutS int) SolverResult {
	spec := solverCmds[name]
	args := []string{}
	for _, a := range spec[1:] {
		if strings.Contains(a, "%d") {
			a = fmt.Sprintf(a, timeoutS)
		}
		args = append(args, a)
	}
	args = append(args, file)
	ctx, cancel := context.WithTimeout(context.Background(), time.Duration(timeoutS+2)*time.Second)
	defer cancel()
	cmd := exec.CommandContext(ctx, spec[0], args...)
	var out bytes.Buffer
	cmd.Stdout = &out
	cmd.Stderr = &out
	t0 := time.Now()
	_ = cmd.Run()
	el := time.Since(t0).Seconds()
	o := out.String()
	first := strings.TrimSpace(o)
	if i := strings.IndexByte(first, '\n'); i >= 0 {
		first = strings.TrimSpace(first[:i])
	}
	res := SolverResult{Solver: name, Time: el, Output: o}
	switch first {
	case "unsat":
		res.Status = "unsat"
	case "sat":
		res.Status = "sat"
		if i := strings.IndexByte(o, '\n'); i >= 0 {
			res.Model = o[i+1:]
		}
	case "unknown":
		res.Status = "unknown"
	case "timeout":
		res.Status = "timeout"
	default:
		if ctx.Err() != nil {
			res.Status = "timeout"
		} else {
			res.Status = "error"
		}
	}
	return res
}

// solveFile runs the portfolio: z3-new first; on unknown/timeout/error, the others.
func solveFile(file string, timeoutS int, wantModel bool) SolverResult {
	order := []string{"z3-new", "cvc5", "z3"}
	var last SolverResult
	var total float64
	for i, s := range order {
		t := timeoutS
		if i > 0 && t > 5 {
			t = timeoutS / 2
		}
		r := runSolver(s, file, t)
		total += r.Time
		if r.Status == "unsat" || r.Status == "sat" {
			r.Time = total
			return r
		}
		if last.Output != "" {
			r.Output = last.Output + "\n--- " + s + " ---\n" + r.Output
		} else {
			r.Output = "--- " + s + " ---\n" + r.Output
		}
		last = r
	}
	last.Time = total
	return last
}

func writeQuery(path string, facts []string, extra ...string) error {
	var b bytes.Buffer
	b.WriteString(smtPreamble)
	for _, l := range facts {
		b.WriteString(l)
		b.WriteByte('\n')
	}
	for _, l := range extra {
		b.WriteString(l)
		b.WriteByte('\n')
	}
	return os.WriteFile(path, b.Bytes(), 0o644)
}

func sortedKeys[V any](m map[string]V) []string {
	ks := make([]string, 0, len(m))
	for k := range m {
		ks = append(ks, k)
	}
	sort.Strings(ks)
	return ks
}

// writeQueryQF writes a query whose preamble has no quantified axioms either.
func writeQueryQF(path string, facts []string, extra ...string) error {
	var b bytes.Buffer
	for _, l := range strings.Split(smtPreamble, "\n") {
		if strings.Contains(l, "(forall ") {
			continue
		}
		b.WriteString(l)
		b.WriteByte('\n')
	}
	for _, l := range facts {
		b.WriteString(l)
		b.WriteByte('\n')
	}
	for _, l := range extra {
		b.WriteString(l)
		b.WriteByte('\n')
	}
	return os.WriteFile(path, b.Bytes(), 0o644)
}
