package main

import (
	"fmt"
	"go/types"
	"strings"

	"golang.org/x/tools/go/ssa"
)

type Kind int

const (
	KInvalid Kind = iota
	KBool
	KInt
	KStr
	KRef   // pointers-to-object, maps, chans, funcs (Int; 0 = nil)
	KIface // interface handle (Int; 0 = nil)
	KSlice // Slice datatype
	KStruct
	KTuple
	KPtr     // pointer to a scalar cell / field / element: structured Place, optional opaque term
	KClosure // engine-side closure
	KSpec    // value of a pure spec sort (e.g. Array ...), S holds the term, Sort the SMT sort
)

type PlaceKind int

const (
	PNone   PlaceKind = iota
	PField            // field Field of struct object Base (struct type Struct)
	PElem             // element Index of element-array object Base (elem type Elem)
	PCell             // standalone heap cell at address Base (pointee type Elem)
	PLocal            // non-escaping local alloc (engine-side register), Local is the key
	PGlobal           // package-level variable
)

type Place struct {
	Kind   PlaceKind
	Base   string // SMT Int term
	Struct string // struct type key (PField)
	Field  string
	Index  string // PElem
	Elem   types.Type
	Local  string
	Global *ssa.Global
}

type Val struct {
	K    Kind
	T    types.Type
	S    string // SMT term (scalar kinds), or opaque pointer address for KPtr
	Fs   []Val  // struct / tuple components
	P    *Place // KPtr
	Fn   *ssa.Function
	Bind []Val  // KClosure bindings
	Sort string // KSpec
}

func (v Val) String() string {
	switch v.K {
	case KStruct, KTuple:
		var xs []string
		for _, f := range v.Fs {
			xs = append(xs, f.String())
		}
		return "{" + strings.Join(xs, ", ") + "}"
	case KPtr:
		if v.P != nil {
			return fmt.Sprintf("&%v", *v.P)
		}
	}
	return v.S
}

func boolVal(t string) Val { return Val{K: KBool, T: types.Typ[types.Bool], S: t} }
func intVal(t string) Val  { return Val{K: KInt, T: types.Typ[types.Int], S: t} }

// typeKey gives a stable, SMT-friendly key for a Go type.
func typeKey(t types.Type) string {
	s := types.TypeString(t, func(p *types.Package) string {
		if p.Path() == modPath {
			return ""
		}
		return p.Name()
	})
	return s
}

const modPath = "github.com/hashicorp/go-plugin"

func shortPkg(path string) string {
	if path == modPath {
		return "plugin"
	}
	if strings.HasPrefix(path, modPath+"/") {
		p := path[len(modPath)+1:]
		if i := strings.LastIndex(p, "/"); i >= 0 {
			p = p[i+1:]
		}
		return p
	}
	if i := strings.LastIndex(path, "/"); i >= 0 {
		return path[i+1:]
	}
	return path
}

func isModuleType(t types.Type) bool {
	if n, ok := t.(*types.Named); ok {
		if n.Obj().Pkg() != nil {
			p := n.Obj().Pkg().Path()
			return p == modPath || strings.HasPrefix(p, modPath+"/")
		}
	}
	return false
}

// kindOf maps a Go type to a value kind and (for scalar kinds) an SMT sort.
func kindOf(t types.Type) (Kind, string) {
	switch u := t.Underlying().(type) {
	case *types.Basic:
		switch {
		case u.Info()&types.IsBoolean != 0:
			return KBool, "Bool"
		case u.Info()&types.IsInteger != 0:
			return KInt, "Int"
		case u.Info()&types.IsString != 0:
			return KStr, "Str"
		case u.Info()&types.IsFloat != 0, u.Info()&types.IsComplex != 0:
			return KInt, "Int" // floats do not occur in functions under contract; treated as opaque Int
		case u.Kind() == types.UnsafePointer:
			return KRef, "Int"
		case u.Kind() == types.UntypedNil:
			return KRef, "Int"
		}
	case *types.Pointer:
		ek, _ := kindOfElem(u.Elem())
		if ek == KStruct || ek == KInvalid {
			return KRef, "Int"
		}
		return KPtr, "Int"
	case *types.Map, *types.Chan, *types.Signature:
		return KRef, "Int"
	case *types.Interface:
		return KIface, "Int"
	case *types.Slice:
		return KSlice, "Slice"
	case *types.Struct:
		return KStruct, ""
	case *types.Tuple:
		return KTuple, ""
	case *types.Array:
		return KInvalid, ""
	}
	return KInvalid, ""
}

// kindOfElem: what a pointer's pointee looks like. Arrays and structs are "objects"
// (the pointer is an object reference); everything else is a scalar cell.
func kindOfElem(t types.Type) (Kind, string) {
	switch t.Underlying().(type) {
	case *types.Struct, *types.Array:
		return KStruct, ""
	}
	return kindOf(t)
}

func scalarSort(k Kind) string {
	switch k {
	case KBool:
		return "Bool"
	case KInt, KRef, KIface, KPtr:
		return "Int"
	case KStr:
		return "Str"
	case KSlice:
		return "Slice"
	}
	return ""
}

func isScalar(k Kind) bool { return scalarSort(k) != "" }

// structKey names a struct type for memory keys.
func structKey(t types.Type) string {
	if p, ok := t.Underlying().(*types.Pointer); ok {
		t = p.Elem()
	}
	return typeKey(t)
}

func structOf(t types.Type) *types.Struct {
	if p, ok := t.Underlying().(*types.Pointer); ok {
		t = p.Elem()
	}
	s, _ := t.Underlying().(*types.Struct)
	return s
}

func intRange(t types.Type) (lo, hi string, ok bool) {
	b, isb := t.Underlying().(*types.Basic)
	if !isb {
		return
	}
	switch b.Kind() {
	case types.Int, types.Int64:
		return "(- 9223372036854775808)", "9223372036854775807", true
	case types.Int32:
		return "(- 2147483648)", "2147483647", true
	case types.Int16:
		return "(- 32768)", "32767", true
	case types.Int8:
		return "(- 128)", "127", true
	case types.Uint, types.Uint64, types.Uintptr:
		return "0", "18446744073709551615", true
	case types.Uint32:
		return "0", "4294967295", true
	case types.Uint16:
		return "0", "65535", true
	case types.Uint8:
		return "0", "255", true
	}
	return
}
