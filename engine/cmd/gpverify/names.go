package main

// Rename tolerance. Contracts name parameters, results, local and captured variables of the
// functions they annotate. /verif/contracts/names.json records, for the tree the contracts were
// written against, the declared variables of every function in declaration order (with their
// types) and the captured variables of every function literal in capture order. When the tree
// under verification declares the same number of variables with the same types in the same
// order but under different names, a name the contract uses and the function no longer declares
// is read as the variable now standing at its position. Any other difference disables the
// mapping for that function (names are then looked up as written).

import (
	"encoding/json"
	"go/ast"
	"go/types"
	"os"
	"path/filepath"
	"sort"

	"golang.org/x/tools/go/ssa"
)

type nameRec struct {
	Name string `json:"n"`
	Type string `json:"t"`
}

type fnNames struct {
	Vars []nameRec `json:"vars"`
	Free []nameRec `json:"free,omitempty"`
}

func (e *Engine) declNames(fn *ssa.Function) fnNames {
	var out fnNames
	for _, fv := range fn.FreeVars {
		out.Free = append(out.Free, nameRec{fv.Name(), e.shorten(fv.Type().String())})
	}
	syn := fn.Syntax()
	if syn == nil {
		return out
	}
	var info *types.Info
	if fn.Pkg != nil {
		info = e.infos[fn.Pkg.Pkg]
	} else if fn.Parent() != nil && fn.Parent().Pkg != nil {
		info = e.infos[fn.Parent().Pkg.Pkg]
	}
	for f := fn; info == nil && f != nil; f = f.Parent() {
		if f.Pkg != nil {
			info = e.infos[f.Pkg.Pkg]
		}
	}
	if info == nil {
		return out
	}
	type rec struct {
		pos int
		r   nameRec
	}
	var recs []rec
	ast.Inspect(syn, func(n ast.Node) bool {
		if fl, ok := n.(*ast.FuncLit); ok && n != syn {
			_ = fl
			return false // nested literals have their own entry
		}
		if id, ok := n.(*ast.Ident); ok {
			if obj, ok := info.Defs[id].(*types.Var); ok && obj != nil && !obj.IsField() && id.Name != "_" {
				recs = append(recs, rec{int(id.Pos()), nameRec{id.Name, e.shorten(obj.Type().String())}})
			}
		}
		return true
	})
	sort.Slice(recs, func(i, j int) bool { return recs[i].pos < recs[j].pos })
	for _, r := range recs {
		out.Vars = append(out.Vars, r.r)
	}
	return out
}

func (e *Engine) allDeclNames() map[string]fnNames {
	out := map[string]fnNames{}
	for name, fn := range e.funcs {
		base := name
		for i := 0; i < len(base); i++ {
			if base[i] == '$' {
				base = base[:i]
				break
			}
		}
		if e.cs.Funcs[name] == nil && e.cs.Funcs[base] == nil {
			continue
		}
		out[name] = e.declNames(fn)
	}
	return out
}

func (e *Engine) loadRefNames(verifDir string) {
	e.refNames = map[string]fnNames{}
	data, err := os.ReadFile(filepath.Join(verifDir, "contracts", "names.json"))
	if err != nil {
		return
	}
	_ = json.Unmarshal(data, &e.refNames)
}

func alignNames(ref, cur []nameRec) map[string]string {
	if len(ref) != len(cur) || len(ref) == 0 {
		return nil
	}
	for i := range ref {
		if ref[i].Type != cur[i].Type {
			return nil
		}
	}
	curHas := map[string]bool{}
	for _, c := range cur {
		curHas[c.Name] = true
	}
	out := map[string]string{}
	ambiguous := map[string]bool{}
	for i := range ref {
		if ref[i].Name != cur[i].Name && !curHas[ref[i].Name] {
			if old, dup := out[ref[i].Name]; dup && old != cur[i].Name {
				// the same old name stood for two variables that now have different names: that
				// name cannot be aliased (a clause using it no longer evaluates); the others can
				ambiguous[ref[i].Name] = true
				continue
			}
			out[ref[i].Name] = cur[i].Name
		}
	}
	for n := range ambiguous {
		delete(out, n)
	}
	return out
}

// aliasesFor returns old-name -> current-name for the variables of fn.
func (e *Engine) aliasesFor(name string, fn *ssa.Function) map[string]string {
	if a, ok := e.aliasMemo[name]; ok {
		return a
	}
	var out map[string]string
	if ref, ok := e.refNames[name]; ok {
		cur := e.declNames(fn)
		out = alignNames(ref.Vars, cur.Vars)
		for k, v := range alignNames(ref.Free, cur.Free) {
			if out == nil {
				out = map[string]string{}
			}
			if _, dup := out[k]; !dup {
				out[k] = v
			}
		}
	}
	if e.aliasMemo == nil {
		e.aliasMemo = map[string]map[string]string{}
	}
	e.aliasMemo[name] = out
	return out
}

func sigOf(n fnNames) string {
	var b []byte
	for _, v := range n.Vars {
		b = append(b, (v.Type + ";")...)
	}
	b = append(b, '|')
	for _, v := range n.Free {
		b = append(b, (v.Type + ";")...)
	}
	return string(b)
}

// remapClosureContracts: function literals are numbered F$1, F$2, ... in source order, so adding
// or removing one renumbers its later siblings. A contract written for F$k is re-attached to the
// sibling whose declared variables and captured variables (types, in order) match what F$k looked
// like when the contract was written, if the literal now at F$k does not match and exactly one
// sibling does.
func (e *Engine) remapClosureContracts() {
	moved := map[string]string{}
	for name, fc := range e.cs.Funcs {
		i := -1
		for k := 0; k < len(name); k++ {
			if name[k] == '$' {
				i = k
				break
			}
		}
		if i < 0 || fc.Extern {
			continue
		}
		ref, ok := e.refNames[name]
		if !ok {
			continue
		}
		want := sigOf(ref)
		if cur := e.funcs[name]; cur != nil && sigOf(e.declNames(cur)) == want {
			continue
		}
		base := name[:i]
		var cands []string
		for n, fn := range e.funcs {
			if len(n) > len(base) && n[:len(base)+1] == base+"$" && e.cs.Funcs[n] == nil && sigOf(e.declNames(fn)) == want {
				cands = append(cands, n)
			}
		}
		if len(cands) == 1 {
			moved[name] = cands[0]
		}
	}
	for from, to := range moved {
		fc := e.cs.Funcs[from]
		delete(e.cs.Funcs, from)
		fc.Name = to
		e.cs.Funcs[to] = fc
		if rn, ok := e.refNames[from]; ok {
			e.refNames[to] = rn
		}
	}
}
