package main

// Goal-directed instantiation of quantified facts by syntactic E-matching done in the
// engine. The SMT solvers' own E-matching proved sensitive to unrelated axioms (a proof
// that goes through in isolation comes back `unknown` or times out once more quantified
// facts are present). Here the quantified facts of a query are instantiated against the
// ground terms of the query itself (trigger = smallest applications containing the bound
// variable; several rounds), which yields a quantifier-free query that is decided quickly
// and deterministically. Instances of asserted facts are consequences of them, dropping
// facts only weakens the hypotheses, and existential goals are replaced by disjunctions
// of instances (a stronger goal), so `unsat` for the ground query is a valid discharge.

import (
	"sort"
	"strings"
)

var debugGround bool

type sx struct {
	atom string
	list []*sx
	str  string
}

func parseSexp(s string) *sx {
	pos := 0
	var parse func() *sx
	skip := func() {
		for pos < len(s) && (s[pos] == ' ' || s[pos] == '\n' || s[pos] == '\t') {
			pos++
		}
	}
	parse = func() *sx {
		skip()
		if pos >= len(s) {
			return nil
		}
		if s[pos] == '(' {
			pos++
			n := &sx{list: []*sx{}}
			for {
				skip()
				if pos >= len(s) {
					return n
				}
				if s[pos] == ')' {
					pos++
					return n
				}
				c := parse()
				if c == nil {
					return n
				}
				n.list = append(n.list, c)
			}
		}
		start := pos
		if s[pos] == '|' {
			pos++
			for pos < len(s) && s[pos] != '|' {
				pos++
			}
			pos++
			return &sx{atom: s[start:pos]}
		}
		for pos < len(s) && s[pos] != ' ' && s[pos] != ')' && s[pos] != '(' && s[pos] != '\n' {
			pos++
		}
		return &sx{atom: s[start:pos]}
	}
	return parse()
}

func (x *sx) isList() bool { return x.list != nil }

func (x *sx) String() string {
	if !x.isList() {
		return x.atom
	}
	if x.str != "" {
		return x.str
	}
	var b strings.Builder
	x.write(&b)
	x.str = b.String()
	return x.str
}

func (x *sx) write(b *strings.Builder) {
	if !x.isList() {
		b.WriteString(x.atom)
		return
	}
	b.WriteByte('(')
	for i, c := range x.list {
		if i > 0 {
			b.WriteByte(' ')
		}
		c.write(b)
	}
	b.WriteByte(')')
}

func (x *sx) head() string {
	if x.isList() && len(x.list) > 0 && !x.list[0].isList() {
		return x.list[0].atom
	}
	return ""
}

func (x *sx) subst(m map[string]*sx) *sx {
	if !x.isList() {
		if r, ok := m[x.atom]; ok {
			return r
		}
		return x
	}
	n := &sx{list: make([]*sx, len(x.list))}
	for i, c := range x.list {
		n.list[i] = c.subst(m)
	}
	return n
}

func (x *sx) mentions(vars map[string]bool) bool {
	if !x.isList() {
		return vars[x.atom]
	}
	for _, c := range x.list {
		if c.mentions(vars) {
			return true
		}
	}
	return false
}

type qfact struct {
	guards   []string
	vars     []string
	sorts    []string
	body     *sx
	triggers []*sx
}

var logicalHeads = map[string]bool{"and": true, "or": true, "not": true, "=>": true, "=": true, "ite": true, "<": true, "<=": true, ">": true, ">=": true,
	"+": true, "-": true, "*": true, "div": true, "mod": true, "distinct": true, "!": true, "forall": true, "exists": true, "let": true}

// findTriggers: smallest non-logical applications that mention a bound variable.
func findTriggers(x *sx, vars map[string]bool, out *[]*sx) bool {
	if !x.isList() {
		return vars[x.atom]
	}
	h := x.head()
	if h == "forall" || h == "exists" {
		return false
	}
	any := false
	childHas := false
	for _, c := range x.list[1:] {
		if c.isList() {
			if findTriggers(c, vars, out) {
				childHas = true
			}
		} else if vars[c.atom] {
			any = true
		}
	}
	if h == "" {
		for _, c := range x.list {
			if findTriggers(c, vars, out) {
				childHas = true
			}
		}
		return childHas
	}
	if logicalHeads[h] {
		return any || childHas
	}
	// application of an uninterpreted/array function
	if any || childHas {
		// prefer the innermost application: if a child application already mentions the variable
		// through a non-arithmetic application it was recorded; record this one only when the
		// variable occurs directly or under arithmetic
		direct := any
		if !direct {
			for _, c := range x.list[1:] {
				if c.isList() && logicalHeads[c.head()] && c.mentions(vars) {
					direct = true
				}
			}
		}
		if direct {
			*out = append(*out, x)
		}
		return true
	}
	return false
}

// collectForalls finds universally quantified subformulas in positive positions.
func collectForalls(x *sx, guards []string, out *[]qfact) {
	if !x.isList() {
		return
	}
	switch x.head() {
	case "forall":
		if len(x.list) != 3 {
			return
		}
		q := qfact{guards: append([]string{}, guards...)}
		vs := map[string]bool{}
		for _, d := range x.list[1].list {
			if len(d.list) == 2 {
				q.vars = append(q.vars, d.list[0].atom)
				q.sorts = append(q.sorts, d.list[1].String())
				vs[d.list[0].atom] = true
			}
		}
		body := x.list[2]
		if body.head() == "!" && len(body.list) >= 2 {
			body = body.list[1]
		}
		q.body = body
		findTriggers(body, vs, &q.triggers)
		*out = append(*out, q)
	case "=>":
		if len(x.list) == 3 {
			collectForalls(x.list[2], append(guards, x.list[1].String()), out)
		}
	case "and":
		for _, c := range x.list[1:] {
			collectForalls(c, guards, out)
		}
	}
}

// universe: ground terms of a query modulo the ground equalities it asserts
// (congruence closure; guards of conditional equalities are ignored because the closure
// is used only to *find* instantiation candidates, never as a proof step).
type universe struct {
	ids    map[string]int // term string -> id
	terms  []*sx
	parent []int
	byHead map[string][]*sx // normalized representatives by head symbol
	assume  map[string]bool // case assumptions on ite conditions
	lit     map[int]string
	active  map[int]bool // terms in the goal's cone: only these (or terms equal to them) start a match
	activeCls map[int]bool
	members map[int][]int
	headIdx map[string][]int
	dirty  bool
	eqs    [][2]int
}

func newUniverse() *universe {
	return &universe{ids: map[string]int{}, byHead: map[string][]*sx{}, lit: map[int]string{}, active: map[int]bool{}}
}

func (u *universe) find(i int) int {
	for u.parent[i] != i {
		u.parent[i] = u.parent[u.parent[i]]
		i = u.parent[i]
	}
	return i
}

func (u *universe) better(a, b int) bool {
	sa, sb := u.terms[a].String(), u.terms[b].String()
	if len(sa) != len(sb) {
		return len(sa) < len(sb)
	}
	return sa < sb
}

func (u *universe) union(a, b int) bool {
	ra, rb := u.find(a), u.find(b)
	if ra == rb {
		return false
	}
	la, lb := u.lit[ra], u.lit[rb]
	if la != "" && lb != "" && la != lb {
		return false // never identify two different literals
	}
	if u.better(rb, ra) {
		ra, rb = rb, ra
	}
	u.parent[rb] = ra
	if u.lit[ra] == "" {
		u.lit[ra] = u.lit[rb]
	}
	return true
}

// intern registers a ground term and all its subterms.
func (u *universe) intern(x *sx) int {
	s := x.String()
	if id, ok := u.ids[s]; ok {
		return id
	}
	if x.isList() {
		for _, c := range x.list {
			if c.isList() || c.atom != "" {
				u.intern(c)
			}
		}
	}
	id := len(u.terms)
	u.ids[s] = id
	u.terms = append(u.terms, x)
	u.parent = append(u.parent, id)
	if isLiteral(x) {
		u.lit[id] = s
	}
	u.dirty = true
	if u.assume != nil && x.isList() && x.head() == "ite" && len(x.list) == 4 {
		if v, ok := u.assume[x.list[1].String()]; ok {
			br := x.list[3]
			if v {
				br = x.list[2]
			}
			bid := u.intern(br)
			u.eqs = append(u.eqs, [2]int{id, bid})
		}
	}
	return id
}

// addFormula interns the terms of a ground formula and records its equalities.
func (u *universe) addFormula(x *sx) {
	if !x.isList() {
		return
	}
	h := x.head()
	switch h {
	case "forall", "exists", "declare-fun", "declare-sort", "declare-datatypes", "set-option", "set-logic":
		return
	case "assert":
		if len(x.list) == 2 {
			f := x.list[1]
			// equalities usable for the closure: unconditional ones, and definitional ones
			// (a bind/callee-bind constant defined under a path condition)
			u.collectEqs(f, 0)
			u.addFormula(f)
		}
		return
	case "and", "or", "not", "=>", "ite", "=":
		for _, c := range x.list[1:] {
			u.addFormula(c)
		}
		if h == "ite" {
			u.intern(x)
		}
		return
	}
	u.intern(x)
	for _, c := range x.list[1:] {
		u.addFormula(c)
	}
}

func (u *universe) add(x *sx) { u.addFormula(x) }

// addActive interns a formula's terms and marks them as belonging to the goal's cone.
func (u *universe) addActive(x *sx) {
	u.addFormula(x)
	u.markActive(x)
}

func (u *universe) markActive(x *sx) {
	if !x.isList() {
		if id, ok := u.ids[x.atom]; ok && !isLiteral(x) && !logicalHeads[x.atom] {
			u.active[id] = true
		}
		return
	}
	if h := x.head(); h == "forall" || h == "exists" {
		return
	}
	if id, ok := u.ids[x.String()]; ok {
		u.active[id] = true
	}
	for _, c := range x.list {
		u.markActive(c)
	}
}

// collectEqs gathers equalities in positive positions (also under path-condition guards:
// the closure only proposes instantiation candidates, so over-merging is harmless as long
// as distinct literals are never identified, see union).
func (u *universe) collectEqs(f *sx, depth int) {
	if !f.isList() || depth > 6 {
		return
	}
	switch f.head() {
	case "=":
		if len(f.list) == 3 {
			u.addEq(f)
		}
	case "=>":
		if len(f.list) == 3 {
			u.collectEqs(f.list[2], depth+1)
		}
	case "and":
		for _, c := range f.list[1:] {
			u.collectEqs(c, depth+1)
		}
	}
}

func isLiteral(x *sx) bool {
	if x.isList() {
		return x.head() == "-" && len(x.list) == 2 && isLiteral(x.list[1])
	}
	a := x.atom
	if a == "true" || a == "false" || a == "str_empty" {
		return true
	}
	if len(a) > 0 && a[0] >= '0' && a[0] <= '9' {
		return true
	}
	return strings.HasPrefix(a, "str!") || strings.HasPrefix(a, "|str!")
}

func (u *universe) addEq(e *sx) {
	if srtBool(e.list[1]) || srtBool(e.list[2]) {
		return
	}
	a, b := u.intern(e.list[1]), u.intern(e.list[2])
	u.eqs = append(u.eqs, [2]int{a, b})
}

// srtBool: obviously boolean terms are not merged (path conditions, comparisons).
func srtBool(x *sx) bool {
	if !x.isList() {
		return x.atom == "true" || x.atom == "false" || strings.HasPrefix(x.atom, "pc!")
	}
	switch x.head() {
	case "and", "or", "not", "=>", "=", "<", "<=", ">", ">=", "forall", "exists":
		return true
	}
	return false
}

// close computes the congruence closure and rebuilds the normalized term index.
func (u *universe) close() {
	if !u.dirty {
		return
	}
	u.dirty = false
	for _, e := range u.eqs {
		u.union(e[0], e[1])
	}
	for iter := 0; iter < 20; iter++ {
		sig := map[string]int{}
		changed := false
		for id, t := range u.terms {
			if !t.isList() || len(t.list) == 0 {
				continue
			}
			var b strings.Builder
			for i, c := range t.list {
				if i > 0 {
					b.WriteByte(' ')
				}
				if cid, ok := u.ids[c.String()]; ok {
					b.WriteString("#")
					b.WriteString(itoa(u.find(cid)))
				} else {
					b.WriteString(c.String())
				}
			}
			k := b.String()
			if o, ok := sig[k]; ok {
				if u.union(o, id) {
					changed = true
				}
			} else {
				sig[k] = id
			}
		}
		if !changed {
			break
		}
	}
	u.buildMembers()
	u.byHead = map[string][]*sx{}
	seen := map[string]bool{}
	for _, t := range u.terms[:0] {
		if !t.isList() {
			continue
		}
		h := t.head()
		if h == "" || logicalHeads[h] {
			continue
		}
		n := u.norm(t)
		s := n.String()
		if seen[s] {
			continue
		}
		seen[s] = true
		u.byHead[n.head()] = append(u.byHead[n.head()], n)
		if n.head() != h {
			u.byHead[h] = append(u.byHead[h], n)
		}
	}
}

// liftSelects adds, for every active (select X i), the terms (select A i) for the arrays A
// that X is built from through ite/store (state merges and updates). They are not equal to
// the original term in general; they only serve as instantiation candidates.
func (u *universe) liftSelects() bool {
	added := false
	n := len(u.terms)
	for id := 0; id < n; id++ {
		t := u.terms[id]
		if !t.isList() || t.head() != "select" || len(t.list) != 3 || !u.activeCls[u.find(id)] {
			continue
		}
		xid, ok := u.ids[t.list[1].String()]
		if !ok {
			continue
		}
		for _, mid := range u.members[u.find(xid)] {
			m := u.terms[mid]
			var subs []*sx
			switch m.head() {
			case "ite":
				if len(m.list) == 4 {
					subs = []*sx{m.list[2], m.list[3]}
				}
			case "store":
				if len(m.list) == 4 {
					subs = []*sx{m.list[1]}
				}
			}
			for _, a := range subs {
				nt := &sx{list: []*sx{t.list[0], a, t.list[2]}}
				if _, exists := u.ids[nt.String()]; !exists {
					nid := u.intern(nt)
					u.active[nid] = true
					added = true
				} else if nid := u.ids[nt.String()]; !u.active[nid] {
					u.active[nid] = true
					added = true
				}
			}
		}
	}
	return added
}

// classMembers lists, per class representative, the application terms in the class.
func (u *universe) buildMembers() {
	u.members = map[int][]int{}
	u.headIdx = map[string][]int{}
	u.activeCls = map[int]bool{}
	for id := range u.active {
		u.activeCls[u.find(id)] = true
	}
	for id, t := range u.terms {
		if !t.isList() || t.head() == "" {
			continue
		}
		r := u.find(id)
		u.members[r] = append(u.members[r], id)
		if !logicalHeads[t.head()] {
			u.headIdx[t.head()] = append(u.headIdx[t.head()], id)
		}
	}
}

// internGround interns the ground subterms of a pattern so that they have classes.
func (u *universe) internGround(p *sx, vars map[string]bool) {
	if !p.mentions(vars) {
		u.intern(p)
		return
	}
	if p.isList() {
		for _, c := range p.list[1:] {
			u.internGround(c, vars)
		}
	}
}

// matchClass matches pattern p against the e-class `cls` (a representative id).
func (u *universe) matchClass(p *sx, cls int, vars map[string]bool, b map[string]int, k func() bool) bool {
	if !p.isList() {
		if vars[p.atom] {
			if old, ok := b[p.atom]; ok {
				if old == cls {
					return k()
				}
				return false
			}
			b[p.atom] = cls
			if k() {
				return true
			}
			delete(b, p.atom)
			return false
		}
		if id, ok := u.ids[p.atom]; ok && u.find(id) == cls {
			return k()
		}
		return false
	}
	if !p.mentions(vars) {
		if id, ok := u.ids[p.String()]; ok && u.find(id) == cls {
			return k()
		}
		return false
	}
	for _, tid := range u.members[cls] {
		t := u.terms[tid]
		if len(t.list) != len(p.list) || t.head() != p.head() {
			continue
		}
		if u.matchArgs(p, t, 1, vars, b, k) {
			return true
		}
	}
	return false
}

func (u *universe) matchArgs(p, t *sx, i int, vars map[string]bool, b map[string]int, k func() bool) bool {
	if i >= len(p.list) {
		return k()
	}
	cid, ok := u.ids[t.list[i].String()]
	if !ok {
		return false
	}
	return u.matchClass(p.list[i], u.find(cid), vars, b, func() bool { return u.matchArgs(p, t, i+1, vars, b, k) })
}

// matches enumerates all bindings of trigger p against the universe (callback per binding).
func (u *universe) matches(p *sx, vars map[string]bool, emit func(map[string]*sx)) {
	if !p.isList() {
		return
	}
	seen := map[string]bool{}
	budget := 400
	if debugGround && strings.Contains(p.String(), "E_int!117") {
		na := 0
		for _, tid := range u.headIdx[p.head()] {
			if u.activeCls[u.find(tid)] {
				na++
				println("   active cand:", clipStr(u.terms[tid].String(), 200))
			}
		}
		println("  trigger", clipStr(p.String(), 300), "cands", len(u.headIdx[p.head()]), "active", na)
	}
	for _, tid := range u.headIdx[p.head()] {
		t := u.terms[tid]
		if len(t.list) != len(p.list) || budget <= 0 || !u.activeCls[u.find(tid)] {
			continue
		}
		b := map[string]int{}
		u.matchArgs(p, t, 1, vars, b, func() bool {
			budget--
			if budget <= 0 {
				return true
			}
			m := map[string]*sx{}
			key := ""
			for v, c := range b {
				m[v] = u.terms[c]
				key += v + "=" + itoa(c) + ";"
			}
			ks := sortKey(b)
			_ = key
			if !seen[ks] {
				seen[ks] = true
				emit(m)
			}
			return false // keep enumerating
		})
	}
}

func sortKey(b map[string]int) string {
	var ks []string
	for k := range b {
		ks = append(ks, k)
	}
	sort.Strings(ks)
	var sb strings.Builder
	for _, k := range ks {
		sb.WriteString(k)
		sb.WriteByte('=')
		sb.WriteString(itoa(b[k]))
		sb.WriteByte(';')
	}
	return sb.String()
}

// norm rewrites a ground term bottom-up to class representatives.
func (u *universe) norm(x *sx) *sx {
	if id, ok := u.ids[x.String()]; ok {
		r := u.terms[u.find(id)]
		if !r.isList() || !x.isList() {
			return r
		}
		// keep the application shape but normalize the arguments (needed for matching on the head)
		x = r
	}
	if !x.isList() {
		return x
	}
	n := &sx{list: make([]*sx, len(x.list))}
	for i, c := range x.list {
		if i == 0 && !c.isList() {
			n.list[i] = c
			continue
		}
		n.list[i] = u.normArg(c)
	}
	return n
}

func (u *universe) normArg(x *sx) *sx {
	if id, ok := u.ids[x.String()]; ok {
		r := u.terms[u.find(id)]
		if !r.isList() {
			return r
		}
		x = r
	}
	if !x.isList() {
		return x
	}
	n := &sx{list: make([]*sx, len(x.list))}
	for i, c := range x.list {
		if i == 0 && !c.isList() {
			n.list[i] = c
			continue
		}
		n.list[i] = u.normArg(c)
	}
	return n
}

// normPattern normalizes the ground subterms of a trigger.
func (u *universe) normPattern(p *sx, vars map[string]bool) *sx {
	if !p.mentions(vars) {
		return u.normArg(p)
	}
	if !p.isList() {
		return p
	}
	n := &sx{list: make([]*sx, len(p.list))}
	for i, c := range p.list {
		n.list[i] = u.normPattern(c, vars)
	}
	return n
}

func (u *universe) addDef(x *sx)             {}
func (u *universe) canon(x *sx, d int) *sx { return x }

// match pattern p (with variables) against ground term t.
func matchSx(p, t *sx, vars map[string]bool, b map[string]*sx) bool {
	if !p.isList() {
		if vars[p.atom] {
			if old, ok := b[p.atom]; ok {
				return old.String() == t.String()
			}
			b[p.atom] = t
			return true
		}
		return !t.isList() && p.atom == t.atom
	}
	if !t.isList() || len(p.list) != len(t.list) {
		return false
	}
	for i := range p.list {
		if !matchSx(p.list[i], t.list[i], vars, b) {
			return false
		}
	}
	return true
}

// groundQuery builds the quantifier-free version of a query: ground facts, instances of
// quantified facts found by matching, and the goal with explicit witnesses.
// It returns the lines to write (without preamble) and the number of instances.
func groundQuery(facts []string, pc, goal string, maxRounds int) ([]string, int) {
	return groundQueryAssume(facts, pc, goal, maxRounds, nil)
}

// iteConditions lists the conditions of ite terms occurring in ground facts, most frequent first.
func iteConditions(facts []string) []string {
	cnt := map[string]int{}
	var walk func(x *sx)
	walk = func(x *sx) {
		if !x.isList() {
			return
		}
		if x.head() == "ite" && len(x.list) == 4 {
			c := x.list[1].String()
			if len(c) < 200 {
				cnt[c]++
			}
		}
		for _, c := range x.list {
			walk(c)
		}
	}
	for _, l := range facts {
		if strings.HasPrefix(l, "(assert ") && strings.Contains(l, "(ite ") && !strings.Contains(l, "(forall ") && len(l) < 4000 {
			if x := parseSexp(l); x != nil {
				walk(x)
			}
		}
	}
	var cs []string
	for c := range cnt {
		cs = append(cs, c)
	}
	sort.Slice(cs, func(i, j int) bool {
		if cnt[cs[i]] != cnt[cs[j]] {
			return cnt[cs[i]] > cnt[cs[j]]
		}
		return cs[i] < cs[j]
	})
	return cs
}

// groundQueryAssume builds the ground query under case assumptions: each assumed
// condition (or its negation) is asserted, and ite terms with that condition are
// identified with the selected branch in the matching universe.
func groundQueryAssume(facts []string, pc, goal string, maxRounds int, assume map[string]bool) ([]string, int) {
	var ground []string
	var qs []qfact
	u := newUniverse()
	u.assume = assume
	for _, l := range facts {
		if strings.HasPrefix(l, "(assert (= ") || strings.HasPrefix(l, "(assert (=> ") {
			if !strings.Contains(l, "(forall ") && !strings.Contains(l, "(exists ") && len(l) < 1500 {
				u.addDef(parseSexp(l))
			}
		}
	}
	for _, l := range facts {
		if !strings.HasPrefix(l, "(assert ") {
			ground = append(ground, l) // declarations
			continue
		}
		if strings.Contains(l, "(forall ") || strings.Contains(l, "(exists ") {
			x := parseSexp(l)
			if x != nil && len(x.list) == 2 {
				collectForalls(x.list[1], nil, &qs)
			}
			continue
		}
		ground = append(ground, l)
		if len(l) < 4000 {
			if x := parseSexp(l); x != nil {
				u.add(x)
			}
		}
	}
	g := parseSexp(goal)
	if g != nil {
		u.addActive(g)
	}
	if p := parseSexp(pc); p != nil {
		u.addActive(p)
	}
	var inst []string
	seen := map[string]bool{}
	const capTotal = 3000
	for _, q := range qs {
		vars := map[string]bool{}
		for _, v := range q.vars {
			vars[v] = true
		}
		for _, tr := range q.triggers {
			u.internGround(tr, vars)
		}
	}
	for round := 0; round < maxRounds && len(inst) < capTotal; round++ {
		u.close()
		for k := 0; k < 3; k++ {
			if !u.liftSelects() {
				break
			}
			u.dirty = true
			u.close()
		}
		var newInst []*sx
		for _, q := range qs {
			vars := map[string]bool{}
			for _, v := range q.vars {
				vars[v] = true
			}
			// collect bindings from each trigger (matching modulo the ground equalities)
			var binds []map[string]*sx
			for _, tr := range q.triggers {
				u.matches(tr, vars, func(m map[string]*sx) { binds = append(binds, m) })
			}
			// complete partial bindings by combining (for multi-variable quantifiers)
			var full []map[string]*sx
			var partial []map[string]*sx
			for _, b := range binds {
				if len(b) == len(q.vars) {
					full = append(full, b)
				} else if len(b) > 0 {
					partial = append(partial, b)
				}
			}
			if len(q.vars) == 2 && len(partial) > 0 && len(partial) <= 40 {
				for _, b1 := range partial {
					for _, b2 := range partial {
						m := map[string]*sx{}
						okc := true
						for k, v := range b1 {
							m[k] = v
						}
						for k, v := range b2 {
							if o, ok := m[k]; ok && o.String() != v.String() {
								okc = false
							}
							m[k] = v
						}
						if okc && len(m) == 2 {
							full = append(full, m)
						}
					}
				}
			}
			if debugGround {
				var ts []string
				for _, tr := range q.triggers {
					ts = append(ts, clipStr(tr.String(), 90))
				}
				println("round", round, "qfact vars", strings.Join(q.vars, ","), "matches", len(full), "partial", len(partial), "triggers", strings.Join(ts, " || "))
			}
			for _, b := range full {
				if len(inst)+len(newInst) >= capTotal {
					break
				}
				ib := q.body.subst(b)
				s := ib.String()
				for i := len(q.guards) - 1; i >= 0; i-- {
					s = "(=> " + q.guards[i] + " " + s + ")"
				}
				if seen[s] {
					continue
				}
				seen[s] = true
				inst = append(inst, "(assert "+s+")")
				newInst = append(newInst, ib)
			}
		}
		if len(newInst) == 0 {
			break
		}
		for _, x := range newInst {
			u.addActive(x)
		}
	}
	u.close()
	// goal: explicit witnesses for existential parts (positive exists / negative forall)
	g2 := goal
	if g != nil && (strings.Contains(goal, "(exists ") || strings.Contains(goal, "(forall ")) {
		g2 = groundGoal(g, true, u).String()
	}
	out := append(ground, inst...)
	for c, v := range assume {
		if v {
			out = append(out, "(assert "+c+")")
		} else {
			out = append(out, "(assert (not "+c+"))")
		}
	}
	out = append(out, "(assert "+pc+")", "(assert (not "+g2+"))", "(check-sat)")
	return out, len(inst)
}

// groundGoal removes quantifiers from a goal, soundly strengthening it:
// positive exists -> disjunction of matched instances; negative forall -> conjunction of
// matched instances; any other quantifier makes the subformula false (positive) / true (negative).
func groundGoal(x *sx, pos bool, u *universe) *sx {
	if !x.isList() {
		return x
	}
	switch x.head() {
	case "not":
		if len(x.list) == 2 {
			return &sx{list: []*sx{x.list[0], groundGoal(x.list[1], !pos, u)}}
		}
	case "=>":
		if len(x.list) == 3 {
			return &sx{list: []*sx{x.list[0], groundGoal(x.list[1], !pos, u), groundGoal(x.list[2], pos, u)}}
		}
	case "and", "or":
		n := &sx{list: []*sx{x.list[0]}}
		for _, c := range x.list[1:] {
			n.list = append(n.list, groundGoal(c, pos, u))
		}
		return n
	case "exists", "forall":
		if len(x.list) != 3 {
			break
		}
		witness := (x.head() == "exists" && pos) || (x.head() == "forall" && !pos)
		if !witness {
			// a universal goal that the engine did not skolemize, or an existential hypothesis:
			// give it up (strengthen the goal / weaken the hypothesis)
			if pos {
				return &sx{atom: "false"}
			}
			return &sx{atom: "true"}
		}
		vars := map[string]bool{}
		var vlist []string
		for _, d := range x.list[1].list {
			if len(d.list) == 2 {
				vars[d.list[0].atom] = true
				vlist = append(vlist, d.list[0].atom)
			}
		}
		body := x.list[2]
		if body.head() == "!" && len(body.list) >= 2 {
			body = body.list[1]
		}
		var trs []*sx
		findTriggers(body, vars, &trs)
		op := "or"
		if x.head() == "forall" {
			op = "and"
		}
		n := &sx{list: []*sx{{atom: op}}}
		seen := map[string]bool{}
		for _, tr := range trs {
			u.internGround(tr, vars)
		}
		u.close()
		for _, tr := range trs {
			u.matches(tr, vars, func(b map[string]*sx) {
				if len(b) != len(vlist) {
					return
				}
				ib := body.subst(b)
				ib = groundGoal(ib, pos, u)
				s := ib.String()
				if !seen[s] && len(n.list) < 60 {
					seen[s] = true
					n.list = append(n.list, ib)
				}
			})
		}
		if len(n.list) == 1 {
			if op == "or" {
				return &sx{atom: "false"}
			}
			return &sx{atom: "true"}
		}
		return n
	}
	return x
}

func sortedStrings(m map[string]bool) []string {
	var ks []string
	for k := range m {
		ks = append(ks, k)
	}
	sort.Strings(ks)
	return ks
}

func itoa(n int) string {
	if n == 0 {
		return "0"
	}
	var b []byte
	for n > 0 {
		b = append([]byte{byte('0' + n%10)}, b...)
		n /= 10
	}
	return string(b)
}
