package main

// Concurrency disciplines reduced to sequential obligations: guarded-by, lock
// invariants, no blocking while holding a lock, bounded waits, channel invariants.

import (
	"fmt"
	"go/token"
	"go/types"
	"strings"

	"golang.org/x/tools/go/ssa"
)

type lockRec struct {
	term  string
	owner string // struct key or "$globals"
	field string
}

// typeContractFor returns the type contract of the struct that fa.X points to.
func (r *Run) typeContractFor(t types.Type) *TypeContract {
	return r.eng.cs.Types[structKey(t)]
}

func (tc *TypeContract) lockOf(field string) string {
	for l, fs := range tc.GuardedBy {
		for _, f := range fs {
			if f == field {
				return l
			}
		}
	}
	return ""
}

func (fr *Frame) topEntryHeap() string {
	f := fr
	for f.parent != nil {
		f = f.parent
	}
	if f.entry == nil {
		return fr.r.initial("g|$heap")
	}
	return fr.r.get(f.entry, "g|$heap")
}

func (fr *Frame) guardedAccess(st *State, fa *ssa.FieldAddr, base Val) {}

func (fr *Frame) guardedCheck(st *State, fa *ssa.FieldAddr, base Val, pos token.Pos, write bool) {
	r := fr.r
	tc := r.typeContractFor(fa.X.Type())
	if tc == nil {
		return
	}
	sto := structOf(fa.X.Type())
	fname := sto.Field(fa.Field).Name()
	sk := structKey(fa.X.Type())
	kind := "read"
	if write {
		kind = "write"
	}
	freshObj := fmt.Sprintf("(> (root %s) %s)", base.S, fr.topEntryHeap())
	for _, f := range tc.Flags["init_phase"] {
		if f == fr.oblFunc() || f == fr.fname {
			// the object is initialised by this function before any other goroutine can reach it
			fr.r.assumes["initialisation phase: "+f+" runs before the object is shared (documented call order)"] = true
			return
		}
	}
	if l := tc.lockOf(fname); l != "" {
		lockRef := r.subObj(sk, l, base.S)
		held := sSelect(r.get(st, "g|$held"), lockRef)
		cond := sOr(held, freshObj)
		// publication: a field declared publish_once is written (under its lock) only from its zero
		// value to its final value (the type's rely clause says so and is checked at every unlock);
		// a function that is only ever entered after the field was published, i.e. whose entry
		// state has it non-zero, may read it without the lock
		if !write {
			for _, f := range tc.Flags["publish_once"] {
				if f != fname {
					continue
				}
				top := fr
				for top.parent != nil {
					top = top.parent
				}
				if top.entry != nil {
					if fk, _ := kindOf(sto.Field(fa.Field).Type()); isScalar(fk) {
						key := r.fieldKey(sk, sto.Field(fa.Field))
						ev := sSelect(r.get(top.entry, key), base.S)
						cond = sOr(cond, sNot(sEq(ev, "0")))
						r.assumes["publication: "+sk+"."+fname+" is read lock-free only by functions entered after it was set (their precondition); the write that publishes it happens before they can run"] = true
					}
				}
			}
		}
		r.require(st, "guarded", fr.oblFunc(), fr.oblName(fmt.Sprintf("%s(%s.%s)@%s", kind, sk, fname, r.eng.pos(pos))), cond, tc.Tags, pos,
			fmt.Sprintf("%s of %s.%s requires lock %s", kind, sk, fname, l))
		return
	}
	// after_recv f:ch -- field f is published by closing (or sending on) the channel in field ch:
	// it is written only by the functions listed under `publishers f:<func>`, before they signal,
	// and read elsewhere only after a receive from that channel in the same function
	for _, ar := range tc.Flags["after_recv"] {
		parts := strings.SplitN(ar, ":", 2)
		if len(parts) != 2 || strings.TrimSpace(parts[0]) != fname {
			continue
		}
		isPub := false
		for _, pb := range tc.Flags["publishers"] {
			pp := strings.SplitN(pb, ":", 2)
			if len(pp) == 2 && strings.TrimSpace(pp[0]) == fname && (strings.TrimSpace(pp[1]) == fr.oblFunc() || strings.TrimSpace(pp[1]) == fr.fname) {
				isPub = true
			}
		}
		if isPub {
			return
		}
		cond := freshObj
		if !write {
			chf := strings.TrimSpace(parts[1])
			for i := 0; i < sto.NumFields(); i++ {
				if sto.Field(i).Name() == chf {
					chv := sSelect(r.get(st, r.fieldKey(sk, sto.Field(i))), base.S)
					cond = sOr(freshObj, sSelect(r.get(st, "g|$recvd"), chv))
				}
			}
		}
		r.require(st, "guarded", fr.oblFunc(), fr.oblName(fmt.Sprintf("%s-after-recv(%s.%s)@%s", kind, sk, fname, r.eng.pos(pos))), cond, tc.Tags, pos,
			fmt.Sprintf("%s of %s.%s outside its publisher needs a preceding receive from %s", kind, sk, fname, strings.TrimSpace(parts[1])))
		return
	}
	if write {
		for _, f := range tc.Flags["immutable"] {
			isWriter := false
			for _, w := range tc.Flags["writers"] {
				if w == fr.oblFunc() || w == fr.fname {
					isWriter = true
				}
			}
			if f == fname && !isWriter {
				r.require(st, "guarded", fr.oblFunc(), fr.oblName(fmt.Sprintf("write-immutable(%s.%s)@%s", sk, fname, r.eng.pos(pos))), freshObj, tc.Tags, pos,
					fmt.Sprintf("write to immutable field %s.%s after construction", sk, fname))
			}
		}
		for _, f := range tc.Flags["atomic_only"] {
			if f == fname {
				r.require(st, "guarded", fr.oblFunc(), fr.oblName(fmt.Sprintf("plain-write(%s.%s)@%s", sk, fname, r.eng.pos(pos))), freshObj, tc.Tags, pos,
					fmt.Sprintf("non-atomic write to atomic-only field %s.%s", sk, fname))
			}
		}
	} else {
		for _, f := range tc.Flags["atomic_only"] {
			if f == fname {
				r.require(st, "guarded", fr.oblFunc(), fr.oblName(fmt.Sprintf("plain-read(%s.%s)@%s", sk, fname, r.eng.pos(pos))), freshObj, tc.Tags, pos,
					fmt.Sprintf("non-atomic read of atomic-only field %s.%s", sk, fname))
			}
		}
	}
}

func (fr *Frame) guardedRead(st *State, fa *ssa.FieldAddr, base Val, pos token.Pos) {
	fr.guardedCheck(st, fa, base, pos, false)
}

// neverClosed: channels held in fields declared `never_closed` are not closed anywhere in the
// module (checked by the module scan), so a value loaded from such a field is an open channel.
func (fr *Frame) neverClosed(st *State, fa *ssa.FieldAddr, v Val) {
	tc := fr.r.typeContractFor(fa.X.Type())
	if tc == nil {
		return
	}
	fname := structOf(fa.X.Type()).Field(fa.Field).Name()
	for _, f := range tc.Flags["never_closed"] {
		if f == fname && v.K == KRef {
			fr.r.assume(st, sNot(sSelect(fr.r.get(st, "g|$closed"), v.S)))
		}
	}
}

func (fr *Frame) guardedWrite(st *State, fa *ssa.FieldAddr, base Val, pos token.Pos) {
	fr.guardedCheck(st, fa, base, pos, true)
}

// lockOwner recovers (owner struct, lock field, base) from the SSA value passed to Lock/Unlock.
func (fr *Frame) lockOwner(st *State, v ssa.Value) (tc *TypeContract, sk, field string, base Val, ok bool) {
	switch x := v.(type) {
	case *ssa.FieldAddr:
		so := structOf(x.X.Type())
		if so == nil {
			return
		}
		sk = structKey(x.X.Type())
		field = so.Field(x.Field).Name()
		base = fr.val(st, x.X)
		base.T = x.X.Type()
		tc = fr.r.eng.cs.Types[sk]
		return tc, sk, field, base, true
	case *ssa.Global:
		sk = "$globals"
		field = x.Name()
		tc = fr.r.eng.cs.Types[sk]
		return tc, sk, field, Val{}, true
	}
	return
}

func (fr *Frame) lockAcquire(st *State, lock Val, pos token.Pos) {}

// lockOp is called from applyContract for functions flagged lock/unlock.
func (fr *Frame) lockOp(st *State, c *ssa.CallCommon, lock Val, acquire bool, pos token.Pos) {
	r := fr.r
	held := r.get(st, "g|$held")
	if len(c.Args) == 0 {
		return
	}
	tc, sk, field, base, ok := fr.lockOwner(st, c.Args[0])
	name := fmt.Sprintf("%s.%s", sk, field)
	if !ok {
		name = fr.describe(c.Args[0])
	}
	var tags []string
	if tc != nil {
		tags = tc.Tags
	}
	if acquire {
		asite := fr.callAnchor(c, "")
		if asite == "" {
			asite = r.eng.pos(pos)
		}
		r.require(st, "lock-order", fr.oblFunc(), fr.oblName(fmt.Sprintf("acquire(%s)@%s", name, asite)), sNot(sSelect(held, lock.S)), tags, pos, "lock "+name+" acquired while already held (self-deadlock)")
		r.set(st, "g|$held", sStore(held, lock.S, "true"))
		fr.r.locks = append(fr.r.locks, lockRec{lock.S, sk, field})
		if tc != nil && ok && sk != "$globals" && len(tc.GuardedBy[field]) > 0 {
			// other goroutines may have changed the guarded fields: havoc unless the object is fresh
			pre := st.clone()
			freshObj := fmt.Sprintf("(> (root %s) %s)", base.S, fr.topEntryHeap())
			so := structOf(base.T)
			for _, f := range tc.GuardedBy[field] {
				if strings.HasPrefix(f, "map:") {
					// the contents of the map held in field f are protected by this lock
					for i := 0; i < so.NumFields(); i++ {
						if so.Field(i).Name() != f[4:] {
							continue
						}
						mt, ok := so.Field(i).Type().Underlying().(*types.Map)
						if !ok {
							continue
						}
						mref := r.load(st, r.fieldPtr(base, i))
						if dk, vk, ks, vs, ok := r.mapKeys(mt); ok {
							nd := r.facts.Fresh("lk_dom", "(Array "+ks+" Bool)")
							nv := r.facts.Fresh("lk_val", "(Array "+ks+" "+vs+")")
							d, v := r.get(st, dk), r.get(st, vk)
							hd := sIte(freshObj, sSelect(d, mref.S), nd)
							hv := sIte(freshObj, sSelect(v, mref.S), nv)
							r.set(st, dk, sStore(d, mref.S, hd))
							r.set(st, vk, sStore(v, mref.S, hv))
							r.baseStore(st, dk, mref.S, hd)
							r.baseStore(st, vk, mref.S, hv)
						}
					}
					continue
				}
				if strings.HasPrefix(f, "ghost:") {
					g := f[6:]
					key := "g|" + g
					if _, isG := r.eng.cs.Ghosts[g]; isG && strings.HasPrefix(r.keySort(key), "(Array Int") {
						old := r.get(st, key)
						rng := arrayRange(r.keySort(key))
						nv := r.facts.Fresh("lk_"+g, rng)
						hv := sIte(freshObj, sSelect(old, base.S), nv)
						r.set(st, key, sStore(old, base.S, hv))
						r.baseStore(st, key, base.S, hv)
					}
					continue
				}
				for i := 0; i < so.NumFields(); i++ {
					if so.Field(i).Name() != f {
						continue
					}
					fp := r.fieldPtr(base, i)
					if fp.K == KPtr {
						old := r.load(st, fp)
						nv := r.freshVal("lk_"+f, so.Field(i).Type(), st)
						hv := r.iteVal(freshObj, old, nv)
						r.store(st, fp, hv)
						if fp.P != nil && fp.P.Kind == PField && isScalar(hv.K) {
							r.baseStore(st, "F|"+fp.P.Struct+"|"+fp.P.Field, fp.P.Base, hv.S)
						}
					} else if fp.K == KRef {
						r.havocObject(st, fp, 0)
					}
				}
			}
			fr.assumeTypeInv(st, tc, base)
			// rely: what other critical sections may have done since we last looked
			cf := fr.typeInvFrame(tc, base)
			cf.entry = pre
			for _, c := range tc.Rely[field] {
				v, err := cf.eval(st, c.Expr, nil)
				if err != nil {
					r.evalErrors = append(r.evalErrors, fmt.Sprintf("type %s rely %q: %v", tc.Name, c.Text, err))
					continue
				}
				r.assume(st, v.S)
			}
			r.lockSnap[lock.S] = st.clone()
		}
		if tc != nil && sk == "$globals" {
			for _, f := range tc.GuardedBy[field] {
				for _, p := range r.eng.pkgs {
					if g, ok := p.Members[f].(*ssa.Global); ok {
						et := g.Type().(*types.Pointer).Elem()
						gp := Val{K: KPtr, T: g.Type(), P: &Place{Kind: PGlobal, Global: g, Elem: et}}
						r.store(st, gp, r.freshVal("lk_"+f, et, st))
					}
				}
			}
		}
		return
	}
	site := fr.callAnchor(c, "")
	if site == "" {
		site = r.eng.pos(pos)
	}
	r.require(st, "lock-balance", fr.oblFunc(), fr.oblName(fmt.Sprintf("release(%s)@%s", name, site)), sSelect(held, lock.S), tags, pos, "unlock of "+name+" which is not held")
	if tc != nil && ok && sk != "$globals" && len(tc.GuardedBy[field]) > 0 {
		fr.checkTypeInvAt(st, tc, base, pos, "inv@unlock", site)
		if snap := r.lockSnap[lock.S]; snap != nil {
			cf := fr.typeInvFrame(tc, base)
			cf.entry = snap
			for i, c := range tc.Rely[field] {
				cf.requireExpr(st, "guarantee@unlock", fr.oblFunc(), fr.oblName(fmt.Sprintf("%s.%s@%s", tc.Name, c.Label(fmt.Sprintf("rely#%d", i+1)), site)), c.Expr, nil, c.Tags, pos, c.Text)
			}
		}
	}
	r.set(st, "g|$held", sStore(held, lock.S, "false"))
}

func (fr *Frame) lockRelease(st *State, lock Val, pos token.Pos) {}

func (fr *Frame) typeInvFrame(tc *TypeContract, base Val) *Frame {
	cf := &Frame{r: fr.r, fn: fr.fn, fname: tc.Name, inst: fr.inst, vals: map[ssa.Value]Val{}, names: map[string]Val{"this": base}, entry: fr.entry}
	return cf
}

func (fr *Frame) assumeTypeInv(st *State, tc *TypeContract, base Val) {
	cf := fr.typeInvFrame(tc, base)
	for _, c := range tc.Inv {
		v, err := cf.eval(st, c.Expr, nil)
		if err != nil {
			fr.r.note(fmt.Sprintf("type %s inv %q: %v", tc.Name, c.Text, err))
			continue
		}
		fr.r.assume(st, v.S)
	}
}

func (fr *Frame) checkTypeInv(st *State, tc *TypeContract, base Val, pos token.Pos, kind string) {
	fr.checkTypeInvAt(st, tc, base, pos, kind, fr.r.eng.pos(pos))
}

func (fr *Frame) checkTypeInvAt(st *State, tc *TypeContract, base Val, pos token.Pos, kind, site string) {
	cf := fr.typeInvFrame(tc, base)
	for i, c := range tc.Inv {
		cf.requireExpr(st, kind, fr.oblFunc(), fr.oblName(fmt.Sprintf("%s.%s@%s", tc.Name, c.Label(fmt.Sprintf("#%d", i+1)), site)), c.Expr, nil, c.Tags, pos, c.Text)
	}
}

// noblockCond: no lock flagged `noblock` (acquired in this run) is held.
func (fr *Frame) noblockCond(st *State) (cond string, tags []string, which []string) {
	r := fr.r
	held := r.get(st, "g|$held")
	var cs []string
	seen := map[string]bool{}
	for _, l := range r.locks {
		tc := r.eng.cs.Types[l.owner]
		if tc == nil {
			continue
		}
		nb, ok := tc.Flags["noblock"]
		if !ok {
			continue
		}
		match := false
		for _, f := range nb {
			if f == l.field {
				match = true
			}
		}
		if !match || seen[l.term] {
			continue
		}
		seen[l.term] = true
		cs = append(cs, sNot(sSelect(held, l.term)))
		which = append(which, l.owner+"."+l.field)
		tags = append(tags, tc.Tags...)
	}
	return sAnd(cs...), tags, which
}

// chanOp is called at plain (non-select) channel sends and receives.
func (fr *Frame) chanOp(st *State, ins ssa.Instruction, ch Val, kind string, blocking bool) {
	r := fr.r
	if !blocking {
		return
	}
	cond, tags, which := fr.noblockCond(st)
	if cond != "true" {
		// a receive is non-blocking if the channel is known to be non-empty or closed
		r.require(st, "noblock-locked", fr.oblFunc(), fr.oblName(fr.anchorName(ins, kind)), sOr(cond, fr.chanReady(st, ch, kind)), tags, ins.Pos(),
			fmt.Sprintf("blocking channel %s while holding %s", kind, strings.Join(which, ",")))
	}
	fr.boundedWait(st, ins, fr.anchorName(ins, kind), fr.boundedChan(ch))
}

func (fr *Frame) chanReady(st *State, ch Val, kind string) string {
	r := fr.r
	r.facts.DeclareFun("chan_ready", []string{"Int"}, "Bool")
	if kind == "recv" {
		return sOr(sSelect(r.get(st, "g|$closed"), ch.S))
	}
	return "false"
}

func (fr *Frame) boundedChan(ch Val) string {
	if _, ok := fr.r.eng.cs.Specs["bounded_chan"]; ok {
		return sApp("bounded_chan", ch.S)
	}
	return "false"
}

// boundedWait: in functions flagged `bounded`, every blocking operation needs a bounding alternative.
func (fr *Frame) boundedWait(st *State, ins ssa.Instruction, site string, justified string) {
	r := fr.r
	var fc *FuncContract
	nonblocking := false
	for p := fr; p != nil; p = p.parent {
		if p.contract != nil && p.contract.Flags["bounded"] != nil {
			fc = p.contract
			break
		}
		if p.contract != nil && p.contract.Flags["nonblocking"] != nil {
			// callers rely on this function never waiting: any blocking operation refutes the flag
			fc = p.contract
			nonblocking = true
			break
		}
		if p.spawned {
			break // a goroutine body checked at its go statement: the spawner's flags do not apply to it
		}
	}
	if fc == nil {
		return
	}
	if nonblocking {
		for p := fr; p != nil; p = p.parent {
			if p.contract == nil {
				continue
			}
			for _, w := range p.contract.Flags["wait"] {
				if strings.HasPrefix(w, site+" ") || w == site {
					r.assumes[fmt.Sprintf("bounded-wait justification (trusted): %s %s", p.fname, w)] = true
					return
				}
			}
		}
		r.require(st, "nonblocking", fr.oblFunc(), fr.oblName(site), "false", fc.Flags["nonblocking"], ins.Pos(), "blocking operation "+site+" in a function declared nonblocking")
		return
	}
	tags := fc.Flags["bounded"]
	var ptags []string
	for _, t := range tags {
		if strings.HasPrefix(t, "C") {
			ptags = append(ptags, t)
		}
	}
	// explicit justification: "wait <site> <reason>" flag lines
	for p := fr; p != nil; p = p.parent {
		if p.contract == nil {
			continue
		}
		for _, w := range p.contract.Flags["wait"] {
			if strings.HasPrefix(w, site+" ") || w == site {
				r.assumes[fmt.Sprintf("bounded-wait justification (trusted): %s %s", p.fname, w)] = true
				return
			}
		}
	}
	r.require(st, "bounded-wait", fr.oblFunc(), fr.oblName(site), justified, ptags, ins.Pos(), "blocking operation "+site+" has no bounding alternative (timer, deadline context, or listed signaller)")
}

func (fr *Frame) selectDiscipline(st *State, in *ssa.Select, names map[string]Val) {
	r := fr.r
	if !in.Blocking {
		return
	}
	cond, tags, which := fr.noblockCond(st)
	if cond != "true" {
		r.require(st, "noblock-locked", fr.oblFunc(), fr.oblName(fr.anchorName(in, "select")), cond, tags, in.Pos(),
			"blocking select while holding "+strings.Join(which, ","))
	}
	var js []string
	for i := range in.States {
		if ch, ok := names[fmt.Sprintf("chan%d", i)]; ok {
			js = append(js, fr.boundedChan(ch))
		}
	}
	fr.boundedWait(st, in, fr.anchorName(in, "select"), sOr(js...))
}

// blockingCall: a call to a function whose contract is flagged `blocking`.
func (fr *Frame) blockingCall(st *State, name string, fc *FuncContract, pos token.Pos) {}

func (fr *Frame) blockingCallAt(st *State, ins ssa.Instruction, name string, fc *FuncContract, c *ssa.CallCommon) {
	r := fr.r
	site := fr.callAnchor(c, name)
	if site == "" {
		site = "call " + name
	}
	cond, tags, which := fr.noblockCond(st)
	if cond != "true" {
		r.require(st, "noblock-locked", fr.oblFunc(), fr.oblName(site), cond, tags, ins.Pos(), "blocking call "+name+" while holding "+strings.Join(which, ","))
	}
	just := "false"
	for _, b := range fc.Flags["blocking"] {
		if b == "conn_bound" || b == "process-output" || b == "process-exit" {
			// accepted in mode peer-dead only
			for p := fr; p != nil; p = p.parent {
				if p.contract != nil {
					for _, m := range p.contract.Flags["bounded"] {
						if m == "peer-dead" {
							just = "true"
							r.assumes["mode peer-dead: pending I/O on a connection or pipe to a dead peer ends (kernel/yamux/gRPC), waiting for its exit ends, call "+name] = true
						}
					}
				}
			}
		}
	}
	fr.boundedWait(st, ins, site, just)
}

// chanRecvAssume attaches the declared channel invariant (if any) to a received value.
// chanKey names a channel by the struct field it is read from (T.f), else by its Go type.
func chanKey(v ssa.Value, t types.Type) string {
	if u, ok := v.(*ssa.UnOp); ok && u.Op == token.MUL {
		if fa, ok := u.X.(*ssa.FieldAddr); ok {
			if so := structOf(fa.X.Type()); so != nil {
				return structKey(fa.X.Type()) + "." + so.Field(fa.Field).Name()
			}
		}
	}
	if t == nil {
		return ""
	}
	return typeKey(t)
}

func (fr *Frame) chanRecvAssume(st *State, ch Val, v Val, ok Val) {
	r := fr.r
	if ch.T == nil {
		return
	}
	invs := r.eng.cs.ChanInv[fr.curChanKey]
	for _, c := range invs {
		val, err := fr.eval(st, c.Expr, map[string]Val{"ch": ch, "elem": v})
		if err != nil {
			r.evalErrors = append(r.evalErrors, fmt.Sprintf("chaninv %s: %v", c.Text, err))
			continue
		}
		r.assume(st, sImp(ok.S, val.S))
	}
}

// chanSendCheck: the sent element must satisfy the channel's declared invariant.
func (fr *Frame) chanSendCheck(st *State, ins ssa.Instruction, site string, ch Val, v Val) {
	r := fr.r
	if ch.T == nil {
		return
	}
	for i, c := range r.eng.cs.ChanInv[fr.curChanKey] {
		fr.requireExpr(st, "chaninv-send", fr.oblFunc(), fr.oblName(fmt.Sprintf("%s.%d%s", site, i+1, tagSuffix(c.Tags))), c.Expr, map[string]Val{"ch": ch, "elem": v}, c.Tags, ins.Pos(), "channel invariant at send: "+c.Text)
	}
}

// guardedMapAccess: a lookup/update/delete on a map held in a struct field whose type
// contract declares the map contents guarded (guarded_by L: map:field) needs the lock.
func (fr *Frame) guardedMapAccess(st *State, mapVal ssa.Value, pos token.Pos, kind string) {
	r := fr.r
	u, ok := mapVal.(*ssa.UnOp)
	if !ok || u.Op != token.MUL {
		return
	}
	fa, ok := u.X.(*ssa.FieldAddr)
	if !ok {
		return
	}
	tc := r.typeContractFor(fa.X.Type())
	if tc == nil {
		return
	}
	so := structOf(fa.X.Type())
	fname := so.Field(fa.Field).Name()
	l := tc.lockOf("map:" + fname)
	if l == "" {
		return
	}
	base := fr.val(st, fa.X)
	sk := structKey(fa.X.Type())
	lockRef := r.subObj(sk, l, base.S)
	held := sSelect(r.get(st, "g|$held"), lockRef)
	freshObj := fmt.Sprintf("(> (root %s) %s)", base.S, fr.topEntryHeap())
	r.require(st, "guarded", fr.oblFunc(), fr.oblName(fmt.Sprintf("%s(%s.%s[])@%s", kind, sk, fname, r.eng.pos(pos))), sOr(held, freshObj), tc.Tags, pos,
		fmt.Sprintf("%s of the contents of map %s.%s requires lock %s", kind, sk, fname, l))
}
