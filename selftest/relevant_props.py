#!/usr/bin/env python3
"""relevant_props.py <patch> <own-prop>: the properties whose check examines a function the patch
touches (by hunk header / changed func lines), always including the patch's own property.
Function sets per property are read from /var/tmp/propfuncs/Cxx.txt (gpverify list -p Cxx)."""
import re, sys, glob, os
patch, own = sys.argv[1], sys.argv[2]
touched = set()
for l in open(patch, errors='replace'):
    m = None
    if l.startswith('@@'):
        m = re.search(r'@@.*@@\s*func\s*(\(([^)]*)\))?\s*([A-Za-z_0-9]+)', l)
    elif l[:1] in '+- ' and re.match(r'^[+\- ]func\b', l):
        m = re.search(r'func\s*(\(([^)]*)\))?\s*([A-Za-z_0-9]+)', l)
    if m:
        recv = (m.group(2) or '').split()
        t = recv[-1].lstrip('*') if recv else ''
        touched.add((t, m.group(3)))
# per touched function, the properties whose check examines it
cover = {}
for f in sorted(glob.glob('/var/tmp/propfuncs/C*.txt')):
    p = os.path.basename(f)[:-4]
    for e in open(f).read().split('\n'):
        base = e.split('$')[0]
        for t, n in touched:
            hit = False
            if t:
                hit = bool(re.search(r'[(.*]' + re.escape(t) + r'\)\.' + re.escape(n) + r'$', base))
            else:
                hit = base == n or (base.endswith('.' + n) and '(' not in base)
            if hit:
                cover.setdefault((t, n), set()).add(p)
if os.environ.get('RELEVANT') == 'all':
    props = {own}
    for ps in cover.values():
        props |= ps
else:
    # every obligation of an examined function is discharged whatever the property, so one check
    # per touched function suffices: greedy cover, the patch's own property first
    props = {own}
    todo = {k for k, ps in cover.items() if own not in ps}
    while todo:
        best = max(sorted({p for k in todo for p in cover[k]}), key=lambda p: sum(1 for k in todo if p in cover[k]))
        props.add(best)
        todo = {k for k in todo if best not in cover[k]}
print(' '.join(sorted(props)))
