package main

// Thorough tier extras: (1) every discharged obligation is re-checked with a second solver
// (disagreement = tool error, never a silent pass); (2) sensitivity self-test: the check is run
// on scratch copies of the tree under verification with each recorded property-breaking change
// applied (hand-written mutants in /verif/selftest/mutants, changes seeded by independent agents in
// /verif/seeded) and must report a violation there, and on behaviour-preserving edits
// (/verif/selftest/harmless) where it must stay quiet. The self-test is informational: it measures
// the check, it does not decide the property.

import (
	"fmt"
	"os"
	"os/exec"
	"path/filepath"
	"sort"
	"strings"
	"sync"
)

type sensResult struct {
	Name    string `json:"name"`
	Kind    string `json:"kind"` // mutant | seeded | harmless
	Outcome string `json:"outcome"`
}

func secondSolver(first string) string {
	if strings.HasPrefix(first, "cvc5") {
		return "z3-new"
	}
	return "cvc5"
}

// crossCheck re-runs discharged obligations with another solver; returns (confirmed, inconclusive, disagreements).
func crossCheck(frs []*FuncResult, jobs int) (int, int, []string) {
	type job struct{ o *Obligation }
	var js []job
	for _, fr := range frs {
		for _, o := range fr.Obls {
			if o.Result == nil || o.Result.Status != "unsat" || o.File == "" || o.Kind == "vacuity" || strings.HasSuffix(o.Name, "!finding") {
				continue
			}
			if _, err := os.Stat(o.File); err != nil {
				continue
			}
			js = append(js, job{o})
		}
	}
	var mu sync.Mutex
	confirmed, inconclusive := 0, 0
	var dis []string
	ch := make(chan job)
	var wg sync.WaitGroup
	for w := 0; w < jobs; w++ {
		wg.Add(1)
		go func() {
			defer wg.Done()
			for j := range ch {
				s := secondSolver(j.o.Result.Solver)
				r := runSolver(s, j.o.File, 5)
				if r.Status != "unsat" && r.Status != "sat" {
					r = runSolver("z3", j.o.File, 5)
				}
				mu.Lock()
				switch r.Status {
				case "unsat":
					confirmed++
				case "sat":
					dis = append(dis, fmt.Sprintf("%s: %s says unsat, %s says sat", j.o.Name, j.o.Result.Solver, r.Solver))
				default:
					inconclusive++
				}
				mu.Unlock()
			}
		}()
	}
	for _, j := range js {
		ch <- j
	}
	close(ch)
	wg.Wait()
	sort.Strings(dis)
	return confirmed, inconclusive, dis
}

func copyTree(src, dst string) error {
	if err := os.MkdirAll(dst, 0o755); err != nil {
		return err
	}
	cmd := exec.Command("cp", "-a", src+"/.", dst)
	if out, err := cmd.CombinedOutput(); err != nil {
		return fmt.Errorf("%v: %s", err, out)
	}
	os.RemoveAll(filepath.Join(dst, ".git"))
	return nil
}

// sensitivity runs the quick check of prop on patched scratch copies.
func sensitivity(prop string) []sensResult {
	type item struct{ name, kind, patch string }
	var items []item
	add := func(glob, kind string) {
		ms, _ := filepath.Glob(glob)
		sort.Strings(ms)
		for _, m := range ms {
			n := strings.TrimSuffix(filepath.Base(m), ".patch")
			if kind == "seeded" {
				n = filepath.Base(filepath.Dir(m))
			}
			items = append(items, item{n, kind, m})
		}
	}
	add(filepath.Join(verifDir, "selftest", "mutants", prop+"-*.patch"), "mutant")
	add(filepath.Join(verifDir, "seeded", prop+"-*", "patch.diff"), "seeded")
	add(filepath.Join(verifDir, "selftest", "harmless", prop+"-*.patch"), "harmless")
	if len(items) == 0 {
		return nil
	}
	self, err := os.Executable()
	if err != nil {
		return nil
	}
	res := make([]sensResult, len(items))
	sem := make(chan struct{}, 4)
	var wg sync.WaitGroup
	for i, it := range items {
		wg.Add(1)
		go func(i int, it item) {
			defer wg.Done()
			sem <- struct{}{}
			defer func() { <-sem }()
			res[i] = sensResult{Name: it.name, Kind: it.kind}
			tmp, err := os.MkdirTemp("", "gpvsens")
			if err != nil {
				res[i].Outcome = "skipped: " + err.Error()
				return
			}
			defer os.RemoveAll(tmp)
			if err := copyTree(repoDir, filepath.Join(tmp, "repo")); err != nil {
				res[i].Outcome = "skipped: " + err.Error()
				return
			}
			pc := exec.Command("patch", "-p1", "-s", "-i", it.patch)
			pc.Dir = filepath.Join(tmp, "repo")
			if out, err := pc.CombinedOutput(); err != nil {
				res[i].Outcome = "skipped: patch does not apply to this tree (" + strings.TrimSpace(clipStr(string(out), 120)) + ")"
				return
			}
			c := exec.Command(self, "check", "-p", prop, "-tier", "quick", "-scratch", filepath.Join(tmp, "out"))
			c.Env = append(os.Environ(), "GPV_REPO="+filepath.Join(tmp, "repo"), "GPV_NO_REPLAY=1")
			out, _ := c.CombinedOutput()
			code := 0
			if c.ProcessState != nil {
				code = c.ProcessState.ExitCode()
			}
			viol := strings.Count(string(out), "\nVIOLATION ") + strings.Count(string(out), "VIOLATION property=")
			switch {
			case it.kind == "harmless" && code == 0:
				res[i].Outcome = "quiet (as it must be)"
			case it.kind == "harmless":
				res[i].Outcome = fmt.Sprintf("ALARM on a behaviour-preserving edit (exit %d)", code)
			case code == 1 && viol > 0:
				res[i].Outcome = "violation reported (as it must be)"
			default:
				res[i].Outcome = fmt.Sprintf("NOT DETECTED (exit %d)", code)
			}
		}(i, it)
	}
	wg.Wait()
	return res
}
