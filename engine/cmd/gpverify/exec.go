package main

// Symbolic execution of go/ssa functions into verification conditions.

import (
	"os"
	"fmt"
	"go/constant"
	"go/token"
	"go/types"
	"sort"
	"strconv"
	"strings"

	"golang.org/x/tools/go/ssa"
)

type Obligation struct {
	Name    string
	Kind    string
	Func    string
	Tags    []string
	Pos     string
	Text    string
	NFacts  int
	Pc      string
	Goal    string
	Site    bool // site obligation without symbolic input
	Result  *SolverResult
	File    string
	Names   map[string]string // interesting named terms for model display
	Trivial bool
	Candidate string // model of the quantifier-free weakening (candidate counterexample)
	Instances int    // ground instances of quantified facts added to the query
}

type Run struct {
	volChans [][2]string // (path condition, channel) pairs: channels a goroutine spawned on that path closes
	eng       *Engine
	facts     *Facts
	memSort   map[string]string
	mem0      map[string]string
	once      map[string]bool
	kindIDs   map[string]int
	loadMemo  map[string]string
	strLits   map[string]string
	tagIDs    map[string]int
	obls      []*Obligation
	dry       int
	top       *ssa.Function
	topName   string
	instCount map[string]int
	notes     map[string]bool
	inlined   map[string]bool
	usedSpecs map[string]bool
	assumes   map[string]bool
	callStack []*ssa.Function
	names     map[string]string // display names for model extraction
	oblNames  map[string]int
	ifaceImpl map[string]bool
	usedAts    map[string]bool
	evalErrors []string
	defaulted  map[string]bool
	spawned    map[string]bool
	heapHavocs []*State
	locks      []lockRec
	cells      []cellRec
	topFrame   *Frame
	inQuant    int
	stores     map[string]storeRec
	allocs     map[string]bool
	lockSnap   map[string]*State
	constCell  map[string]*Val // cell address -> the single value ever stored (write-once variables)
	constCand  map[string]bool
	coverPcs   map[string][]string
	coverPos   map[string]string
}

type cellRec struct {
	key  string
	addr string
}

func newRun(e *Engine, fn *ssa.Function) *Run {
	r := &Run{eng: e, facts: newFacts(), memSort: map[string]string{}, mem0: map[string]string{}, once: map[string]bool{},
		kindIDs: map[string]int{}, loadMemo: map[string]string{}, strLits: map[string]string{}, tagIDs: map[string]int{},
		top: fn, instCount: map[string]int{}, notes: map[string]bool{}, inlined: map[string]bool{}, usedSpecs: map[string]bool{},
		assumes: map[string]bool{}, names: map[string]string{}, oblNames: map[string]int{}, ifaceImpl: map[string]bool{},
		usedAts: map[string]bool{}, defaulted: map[string]bool{}, spawned: map[string]bool{}, stores: map[string]storeRec{}, allocs: map[string]bool{}, constCell: map[string]*Val{}, constCand: map[string]bool{}, lockSnap: map[string]*State{}}
	if fn != nil {
		r.topName = e.funcName(fn)
	}
	r.declKey("g|$heap", "Int")
	r.facts.Assert("(>= " + r.initial("g|$heap") + " 0)")
	r.declKey("g|$held", "(Array Int Bool)")
	r.declKey("g|$closed", "(Array Int Bool)")
	r.declKey("g|$panicking", "Int")
	r.mem0["g|$panicking"] = "0"
	// channels this function (the run's top function and what it inlines) has received from
	r.declKey("g|$recvd", "(Array Int Bool)")
	r.mem0["g|$recvd"] = "((as const (Array Int Bool)) false)"
	for name, srt := range e.cs.Ghosts {
		r.declKey("g|"+name, ghostSort(srt))
	}
	for _, sf := range e.cs.Specs {
		specSymbols[sym(sf.Name)] = true
		if strings.Contains(smtPreamble, "(declare-fun "+sym(sf.Name)+" ") {
			continue // built into the preamble (sequence constructors); the spec line only gives its type
		}
		var args []string
		for _, a := range sf.Args {
			args = append(args, specSort(a))
		}
		r.facts.DeclareFun(sym(sf.Name), args, specSort(sf.Ret))
	}
	return r
}

func specSort(s string) string {
	s = strings.TrimSpace(s)
	switch s {
	case "Int", "Bool", "Str", "Slice", "SeqStr":
		return s
	case "Ref", "Iface", "Ptr":
		return "Int"
	}
	if strings.HasPrefix(s, "map[") {
		d := 0
		for i := 4; i < len(s); i++ {
			if s[i] == '[' {
				d++
			}
			if s[i] == ']' {
				if d == 0 {
					return "(Array " + specSort(s[4:i]) + " " + specSort(s[i+1:]) + ")"
				}
				d--
			}
		}
	}
	if strings.HasPrefix(s, "seq[") && strings.HasSuffix(s, "]") {
		return "(Array Int " + specSort(s[4:len(s)-1]) + ")"
	}
	if strings.HasPrefix(s, "set[") && strings.HasSuffix(s, "]") {
		return "(Array " + specSort(s[4:len(s)-1]) + " Bool)"
	}
	panic("unknown spec sort " + s)
}

func ghostSort(s string) string { return specSort(s) }

func (r *Run) note(s string) { r.notes[s] = true }

func (r *Run) strLit(s string) string {
	if s == "" {
		return "str_empty"
	}
	if t, ok := r.strLits[s]; ok {
		return t
	}
	n := sym(fmt.Sprintf("str!%d!%s", len(r.strLits), clip(s, 24)))
	r.facts.DeclareFun(n, nil, "Str")
	r.facts.Assert(fmt.Sprintf("(= (slen %s) %d)", n, len(s)))
	if len(s) == 1 {
		r.facts.Assert(fmt.Sprintf("(= %s (char_str %d))", n, s[0]))
	}
	for o, ot := range r.strLits {
		if o != s {
			r.facts.Assert("(not (= " + n + " " + ot + "))")
		}
	}
	r.strLits[s] = n
	return n
}

func clip(s string, n int) string {
	var b strings.Builder
	for _, c := range s {
		if b.Len() >= n {
			break
		}
		if c >= 'a' && c <= 'z' || c >= 'A' && c <= 'Z' || c >= '0' && c <= '9' || c == '_' {
			b.WriteRune(c)
		} else {
			b.WriteByte('_')
		}
	}
	return b.String()
}

func (r *Run) typeTag(t types.Type) int {
	k := typeKey(t)
	if id, ok := r.tagIDs[k]; ok {
		return id
	}
	id := len(r.tagIDs) + 1
	r.tagIDs[k] = id
	return id
}

// box builds the interface handle for a concrete value.
func (r *Run) box(t types.Type, v Val) Val {
	it := Val{K: KIface}
	k, srt := kindOf(t)
	tag := r.typeTag(t)
	if !isScalar(k) || v.K == KInvalid {
		h := r.facts.Fresh("box", "Int")
		r.facts.Assert(fmt.Sprintf("(and (not (= %s 0)) (= (itag %s) %d))", h, h, tag))
		it.S = h
		return it
	}
	tk := typeKey(t)
	bf, uf := sym("box|"+tk), sym("unbox|"+tk)
	r.facts.DeclareFun(bf, []string{srt}, "Int")
	r.facts.DeclareFun(uf, []string{"Int"}, srt)
	pv := v.S
	if v.K == KPtr {
		pv = r.ptrTerm(v)
	}
	h := sApp(bf, pv)
	if r.inQuant > 0 && strings.Contains(h, "!q") {
		// the boxed term mentions a bound variable: state the boxing axiom once, quantified
		if !r.once["boxaxq|"+tk] {
			r.once["boxaxq|"+tk] = true
			r.facts.Assert(fmt.Sprintf("(forall ((bx %s)) (! (and (not (= (%s bx) 0)) (= (itag (%s bx)) %d) (= (%s (%s bx)) bx)) :pattern ((%s bx))))", srt, bf, bf, tag, uf, bf, bf))
		}
	} else if !r.once["boxax|"+h] {
		r.once["boxax|"+h] = true
		r.facts.Assert(fmt.Sprintf("(and (not (= %s 0)) (= (itag %s) %d) (= (%s %s) %s))", h, h, tag, uf, h, pv))
	}
	it.S = h
	if v.Fn != nil {
		it.Fn = v.Fn
	}
	return it
}

func (r *Run) unbox(t types.Type, h string) Val {
	k, srt := kindOf(t)
	if !isScalar(k) {
		return Val{K: KInvalid, T: t}
	}
	tk := typeKey(t)
	bf, uf := sym("box|"+tk), sym("unbox|"+tk)
	r.facts.DeclareFun(bf, []string{srt}, "Int")
	r.facts.DeclareFun(uf, []string{"Int"}, srt)
	return Val{K: k, T: t, S: sApp(uf, h)}
}

// ---------------------------------------------------------------------------

type Frame struct {
	r        *Run
	fn       *ssa.Function
	fname    string
	inst     string
	vals     map[ssa.Value]Val
	names    map[string]Val
	contract *FuncContract
	entry    *State
	depth    int
	top      bool
	anchors  map[ssa.Instruction][]string
	loopOrd  map[*ssa.BasicBlock]int
	rangeOrd map[*ssa.Range]int
	defers   []*ssa.Defer
	rets     []retRec
	parent   *Frame
	panics   []*State
	loopFrames map[*ssa.BasicBlock][]loopFrameRec
	dbg        map[string]Val // source variable name -> value of its latest reference (DebugRef)
	curChanKey string // key of the channel of the operation being executed (for channel invariants)
	curRet     string // return site whose deferred calls are being run
	scope      *ssa.BasicBlock // loop header whose phi names take precedence in contract expressions
	innerLoop  map[*ssa.BasicBlock]*ssa.BasicBlock
	loopChain  map[*ssa.BasicBlock][]*ssa.BasicBlock
	loopEntry  map[*ssa.BasicBlock]*State
	rangeIdxFn map[int]string
	spawned    bool                // goroutine body executed at its go statement (spawn_inline)
	inlineBase map[ssa.Instruction]map[string]int // per inlinable call: anchor counts before it
	callSite   ssa.Instruction                    // the call in the parent frame this inlined frame executes
	// loops of a helper without a contract are numbered as if they stood at the call: per inlinable
	// call, the number of loop ordinals that precede the helper's first loop in this function
	inlineLoopBase map[ssa.Instruction]int
	liftTo         *Frame // set while a loop clause of an ancestor's contract is evaluated in this frame
	liftFrom       *Frame // set while a clause anchored at a statement of an inlined helper is evaluated
	curIns     ssa.Instruction     // instruction being executed
	dbgAll     map[string][]dbgRec // every value reference of a source variable, with its position
}

type dbgRec struct {
	v   Val
	blk *ssa.BasicBlock
	idx int
}

type loopFrameRec struct {
	key, old, hin string
}

type retRec struct {
	st  *State
	val Val
}

func (r *Run) newFrame(fn *ssa.Function, parent *Frame) *Frame {
	name := r.eng.funcName(fn)
	r.instCount[name]++
	inst := name
	if parent != nil {
		inst = fmt.Sprintf("%s#%d", name, r.instCount[name])
	}
	fr := &Frame{r: r, fn: fn, fname: name, inst: inst, vals: map[ssa.Value]Val{}, names: map[string]Val{}, dbg: map[string]Val{}, parent: parent,
		anchors: map[ssa.Instruction][]string{}, loopOrd: map[*ssa.BasicBlock]int{}, rangeOrd: map[*ssa.Range]int{}}
	if parent != nil {
		fr.depth = parent.depth + 1
	}
	fr.contract = r.eng.cs.Funcs[name]
	fr.computeAnchors()
	return fr
}

// calleeName names the target of a call for contracts and anchors.
func (r *Run) calleeName(c *ssa.CallCommon) string {
	if c.IsInvoke() {
		return "(" + typeKey(c.Value.Type()) + ")." + c.Method.Name()
	}
	switch v := c.Value.(type) {
	case *ssa.Builtin:
		return v.Name()
	case *ssa.Function:
		return r.eng.funcName(v)
	case *ssa.MakeClosure:
		return r.eng.funcName(v.Fn.(*ssa.Function))
	case *ssa.UnOp:
		if fa, ok := v.X.(*ssa.FieldAddr); ok {
			st := structOf(fa.X.Type())
			if st != nil {
				return "(" + structKey(fa.X.Type()) + ")." + st.Field(fa.Field).Name()
			}
		}
		if g, ok := v.X.(*ssa.Global); ok {
			return shortPkgDot(g.Pkg.Pkg.Path()) + g.Name()
		}
	case *ssa.Extract:
		if cl, ok := v.Tuple.(*ssa.Call); ok {
			return fmt.Sprintf("result:%s.%d", r.calleeName(&cl.Call), v.Index)
		}
	case *ssa.Call:
		return "result:" + r.calleeName(&v.Call)
	case *ssa.Phi:
		if v.Comment != "" {
			return "var:" + r.refName(v.Parent(), v.Comment)
		}
	case *ssa.Parameter:
		return "param:" + r.refName(v.Parent(), v.Name())
	case *ssa.FreeVar:
		return "freevar:" + r.refName(v.Parent(), v.Name())
	case *ssa.Field:
		if s, ok := v.X.Type().Underlying().(*types.Struct); ok {
			return "(" + typeKey(v.X.Type()) + ")." + s.Field(v.Field).Name()
		}
	}
	return "dynamic"
}

func (fr *Frame) computeAnchors() {
	type rec struct {
		in  ssa.Instruction
		pos token.Pos
		seq int
	}
	var recs []rec
	seq := 0
	for _, b := range fr.fn.Blocks {
		// an instruction without a position sorts with the nearest positioned instruction of its
		// block (the one before it, else the one after it): the order is total, so ordinals follow
		// source order whatever the block layout (if/else against switch)
		first := len(recs)
		last := token.NoPos
		for _, in := range b.Instrs {
			p := in.Pos()
			if p == token.NoPos {
				p = last
			} else {
				last = p
			}
			recs = append(recs, rec{in, p, seq})
			seq++
		}
		next := token.NoPos
		for i := len(recs) - 1; i >= first; i-- {
			if recs[i].pos == token.NoPos {
				recs[i].pos = next
			} else {
				next = recs[i].pos
			}
		}
		for i := first; i < len(recs); i++ {
			if recs[i].pos == token.NoPos {
				recs[i].pos = token.Pos(1 << 30) // blocks without any position (the recover block) come last
			}
		}
	}
	sort.SliceStable(recs, func(i, j int) bool {
		pi, pj := recs[i].pos, recs[j].pos
		if pi != pj {
			return pi < pj
		}
		return recs[i].seq < recs[j].seq
	})
	cnt := map[string]int{}
	// old names of renamed variables (see names.go): a call through a local function variable is
	// anchored by that variable's name
	oldOf := map[string][]string{}
	for old, cur := range fr.r.eng.aliasesFor(fr.fname, fr.fn) {
		oldOf[cur] = append(oldOf[cur], old)
	}
	add := func(in ssa.Instruction, base string) {
		cnt[base]++
		fr.anchors[in] = append(fr.anchors[in], fmt.Sprintf("%s#%d", base, cnt[base]))
		if i := strings.Index(base, "var:"); i >= 0 {
			cur := base[i+4:]
			for _, old := range oldOf[cur] {
				ob := base[:i+4] + old
				cnt[ob]++
				fr.anchors[in] = append(fr.anchors[in], fmt.Sprintf("%s#%d", ob, cnt[ob]))
			}
		}
	}
	for _, rc := range recs {
		switch in := rc.in.(type) {
		case *ssa.Call:
			add(in, "call "+fr.r.calleeName(&in.Call))
			if callee := fr.r.eng.inlinableCallee(&in.Call); callee != nil {
				// statements of a helper that has no contract of its own are numbered as if they stood
				// at the call: extracting lines into a helper (or inlining one) keeps ordinals stable
				snap := map[string]int{}
				for k, v := range cnt {
					snap[k] = v
				}
				if fr.inlineBase == nil {
					fr.inlineBase = map[ssa.Instruction]map[string]int{}
				}
				fr.inlineBase[in] = snap
				for base, n := range fr.r.eng.staticAnchorCounts(callee, 0) {
					cnt[base] += n
				}
			}
			// a second name keyed by the first string-literal argument, stable when other calls of
			// the same function are inserted or removed: call fmt.Sprintf("PLUGIN_MIN_PORT=%d")#1
			for i, a := range in.Call.Args {
				if i > 1 {
					break
				}
				if c, ok := a.(*ssa.Const); ok && c.Value != nil && c.Value.Kind() == constant.String {
					add(in, "call "+fr.r.calleeName(&in.Call)+"("+strconv.Quote(constant.StringVal(c.Value))+")")
					break
				}
			}
		case *ssa.Go:
			add(in, "call "+fr.r.calleeName(&in.Call))
			add(in, "go")
		case *ssa.Defer:
			add(in, "call "+fr.r.calleeName(&in.Call))
			add(in, "defer")
			fr.defers = append(fr.defers, in)
		case *ssa.Select:
			add(in, "select")
		case *ssa.Send:
			add(in, "send")
		case *ssa.UnOp:
			if in.Op == token.ARROW {
				add(in, "recv")
			}
		case *ssa.Return:
			add(in, "return")
		case *ssa.Panic:
			add(in, "panic")
		case *ssa.TypeAssert:
			add(in, "typeassert")
		case *ssa.Range:
			cnt["range"]++
			fr.rangeOrd[in] = cnt["range"]
		case *ssa.Store:
			if fa, ok := in.Addr.(*ssa.FieldAddr); ok {
				if st := structOf(fa.X.Type()); st != nil {
					add(in, "store "+structKey(fa.X.Type())+"."+st.Field(fa.Field).Name())
				}
			}
			if g, ok := in.Addr.(*ssa.Global); ok {
				add(in, "store global "+shortPkgDot(g.Pkg.Pkg.Path())+g.Name())
			}
		case *ssa.MapUpdate:
			add(in, "mapupdate")
		}
	}
	// loop headers ordered by source position of the header block's first positioned instruction
	var heads []*ssa.BasicBlock
	for _, b := range fr.fn.Blocks {
		for _, p := range b.Preds {
			if b.Dominates(p) {
				heads = append(heads, b)
				break
			}
		}
	}
	bpos := func(b *ssa.BasicBlock) token.Pos {
		best := token.NoPos
		for _, in := range b.Instrs {
			if _, isPhi := in.(*ssa.Phi); isPhi {
				continue // a phi carries the position of the variable's declaration, not of the loop
			}
			if p := in.Pos(); p != token.NoPos && (best == token.NoPos || p < best) {
				best = p
			}
		}
		if best == token.NoPos {
			// fall back to the loop body
			for _, s := range b.Succs {
				if s.Dominates(b) || !b.Dominates(s) {
					continue
				}
				for _, in := range s.Instrs {
					if p := in.Pos(); p != token.NoPos && (best == token.NoPos || p < best) {
						best = p
					}
				}
			}
		}
		return best
	}
	sort.SliceStable(heads, func(i, j int) bool {
		pi, pj := bpos(heads[i]), bpos(heads[j])
		if pi != pj {
			return pi < pj
		}
		return heads[i].Index < heads[j].Index
	})
	{
		type loopItem struct {
			pos  token.Pos
			h    *ssa.BasicBlock
			call ssa.Instruction
			n    int
		}
		var items []loopItem
		for _, h := range heads {
			items = append(items, loopItem{pos: bpos(h), h: h})
		}
		for _, rc := range recs {
			if in, ok := rc.in.(*ssa.Call); ok {
				if callee := fr.r.eng.inlinableCallee(&in.Call); callee != nil && callee != fr.fn {
					if n := fr.r.eng.staticLoopCount(callee, 0); n > 0 {
						items = append(items, loopItem{pos: in.Pos(), call: in, n: n})
					}
				}
			}
		}
		sort.SliceStable(items, func(i, j int) bool { return items[i].pos < items[j].pos })
		ord := 0
		for _, it := range items {
			if it.h != nil {
				ord++
				fr.loopOrd[it.h] = ord
			} else {
				if fr.inlineLoopBase == nil {
					fr.inlineLoopBase = map[ssa.Instruction]int{}
				}
				fr.inlineLoopBase[it.call] = ord
				ord += it.n
			}
		}
	}
	fr.innerLoop = map[*ssa.BasicBlock]*ssa.BasicBlock{}
	fr.loopChain = map[*ssa.BasicBlock][]*ssa.BasicBlock{}
	size := map[*ssa.BasicBlock]int{}
	bodies := map[*ssa.BasicBlock]map[*ssa.BasicBlock]bool{}
	for _, h := range heads {
		bodies[h] = naturalLoop(h)
	}
	for _, h := range heads {
		var chain []*ssa.BasicBlock
		for _, h2 := range heads {
			if bodies[h2][h] {
				chain = append(chain, h2)
			}
		}
		sort.SliceStable(chain, func(i, j int) bool { return len(bodies[chain[i]]) < len(bodies[chain[j]]) })
		fr.loopChain[h] = chain
	}
	for _, h := range heads {
		body := bodies[h]
		for b := range body {
			if cur, ok := fr.innerLoop[b]; !ok || len(body) < size[cur] {
				fr.innerLoop[b] = h
			}
		}
		size[h] = len(body)
	}
}

// val evaluates an SSA value.
func (fr *Frame) val(st *State, v ssa.Value) Val {
	r := fr.r
	switch x := v.(type) {
	case *ssa.Const:
		return r.constVal(x)
	case *ssa.Function:
		return r.funcVal(x)
	case *ssa.Global:
		et := x.Type().(*types.Pointer).Elem()
		ek, _ := kindOfElem(et)
		if ek == KStruct {
			return Val{K: KRef, T: x.Type(), S: r.globalAddr(shortPkgDot(x.Pkg.Pkg.Path()) + x.Name())}
		}
		return Val{K: KPtr, T: x.Type(), P: &Place{Kind: PGlobal, Global: x, Elem: et}}
	case *ssa.Builtin:
		return Val{K: KInvalid, T: x.Type()}
	}
	if val, ok := fr.vals[v]; ok {
		return val
	}
	// value from a path not executed (e.g. defined in a block cut off): unconstrained
	nv := r.freshVal("undef_"+v.Name(), v.Type(), nil)
	fr.vals[v] = nv
	return nv
}

func (r *Run) funcVal(f *ssa.Function) Val {
	name := r.eng.funcName(f)
	c := r.facts.Const(sym("fn|"+name), "Int")
	if !r.once["fn|"+name] {
		r.once["fn|"+name] = true
		r.facts.Assert(fmt.Sprintf("(and (< %s 0) (= (refkind %s) %d) (= (root %s) %s))", c, c, r.kindID("fn|"+name), c, c))
	}
	return Val{K: KRef, T: f.Type(), S: c, Fn: f}
}

func (r *Run) constVal(c *ssa.Const) Val {
	t := c.Type()
	if c.Value == nil {
		return r.zeroVal(t)
	}
	k, _ := kindOf(t)
	switch k {
	case KBool:
		return Val{K: KBool, T: t, S: strconv.FormatBool(constant.BoolVal(c.Value))}
	case KInt:
		if c.Value.Kind() == constant.Int {
			s := c.Value.ExactString()
			if strings.HasPrefix(s, "-") {
				s = "(- " + s[1:] + ")"
			}
			return Val{K: KInt, T: t, S: s}
		}
		return r.freshVal("fconst", t, nil)
	case KStr:
		return Val{K: KStr, T: t, S: r.strLit(constant.StringVal(c.Value))}
	}
	return r.zeroVal(t)
}

// require emits an obligation and then assumes the condition on this path.
func (r *Run) require(st *State, kind, fname, name string, cond string, tags []string, pos token.Pos, text string) {
	r.requireGF(st, kind, fname, name, cond, cond, tags, pos, text)
}

// requireExpr proves a contract expression (goal form) and then assumes it (fact form).
func (fr *Frame) requireExpr(st *State, kind, fname, name string, e *Expr, extra map[string]Val, tags []string, pos token.Pos, text string) {
	r := fr.r
	g, err := fr.evalGoal(st, e, extra)
	if err != nil {
		r.note(fmt.Sprintf("%s: %s %q: %v", fr.fname, kind, text, err))
		if r.dry == 0 && st.pc != "false" && (kind == "assert" || kind == "ensures" || kind == "inv-init" || kind == "inv-preserve") {
			// the clause cannot even be stated on this tree (a variable or field it speaks about is
			// gone or is not defined at this point any more): the obligation that was discharged on
			// the tree the contract was written for cannot be discharged; reported like a failed proof
			full := fname + "/" + kind + "/" + name
			r.oblNames[full]++
			if n := r.oblNames[full]; n > 1 {
				full = fmt.Sprintf("%s~%d", full, n)
			}
			r.obls = append(r.obls, &Obligation{Name: full, Kind: kind, Func: fname, Tags: tags, Pos: r.eng.pos(pos), Text: text + " -- " + err.Error(), Pc: "true", Goal: "false",
				Result: &SolverResult{Status: "clause-not-evaluable", Solver: "contract-evaluator", Output: err.Error()}})
			return
		}
		r.evalErrors = append(r.evalErrors, fmt.Sprintf("%s: %s %q: %v", fr.fname, kind, text, err))
		return
	}
	f, err := fr.eval(st, e, extra)
	if err != nil {
		f = g
	}
	r.requireGF(st, kind, fname, name, g.S, f.S, tags, pos, text)
}

func (r *Run) requireGF(st *State, kind, fname, name string, cond, fact string, tags []string, pos token.Pos, text string) {
	if cond == "true" || st.pc == "false" {
		if fact != "true" && st.pc != "false" {
			r.facts.Assert(sImp(st.pc, fact))
		}
		if cond == "true" && st.pc != "false" && r.dry == 0 && (kind == "assert" || kind == "ensures") {
			// syntactically true after simplification: still counted, so evidence lists it
			full := fname + "/" + kind + "/" + name
			r.oblNames[full]++
			if n := r.oblNames[full]; n > 1 {
				full = fmt.Sprintf("%s~%d", full, n)
			}
			r.obls = append(r.obls, &Obligation{Name: full, Kind: kind, Func: fname, Tags: tags, Pos: r.eng.pos(pos), Text: text,
				NFacts: r.facts.Len(), Pc: st.pc, Goal: "true"})
		}
		return
	}
	assumeAfter := cond != "false" && fact != "false"
	if r.dry == 0 {
		full := fname + "/" + kind + "/" + name
		r.oblNames[full]++
		if n := r.oblNames[full]; n > 1 {
			full = fmt.Sprintf("%s~%d", full, n)
		}
		goal := cond
		if k := matchKnown(r.eng.known, "", full); k != nil {
			// an obligation recorded as a known finding is expected to fail: it must not be assumed
			// afterwards, or everything downstream of it would be proved vacuously
			assumeAfter = false
		}
		if k := matchKnown(r.eng.known, "", full); k != nil && k.regionExpr != nil && r.topFrame != nil && r.topFrame.entry != nil {
			// known finding delimited by a region R over the entry state: the obligation must
			// hold outside R; inside R it is expected to fail (reported as KNOWN-FINDING).
			ev := &evaluator{fr: r.topFrame, r: r, st: r.topFrame.entry, old: r.topFrame.entry, bound: map[string]Val{}, pkg: r.topFrame.fn.Pkg}
			rv, err := ev.evalTop(k.regionExpr)
			if err != nil {
				r.evalErrors = append(r.evalErrors, fmt.Sprintf("known finding region %q: %v", k.Region, err))
			} else {
				r.obls = append(r.obls, &Obligation{Name: full + "!finding", Kind: kind, Func: fname, Tags: tags, Pos: r.eng.pos(pos), Text: text + " [inside known-finding region " + k.Region + "]",
					NFacts: r.facts.Len(), Pc: sAnd(st.pc, rv.S), Goal: cond})
				goal = sOr(rv.S, cond)
			}
		}
		r.obls = append(r.obls, &Obligation{Name: full, Kind: kind, Func: fname, Tags: tags, Pos: r.eng.pos(pos), Text: text,
			NFacts: r.facts.Len(), Pc: st.pc, Goal: goal})
	} else if matchKnown(r.eng.known, "", fname+"/"+kind+"/"+name) != nil {
		assumeAfter = false
	}
	if assumeAfter {
		r.facts.Assert(sImp(st.pc, fact))
	}
}

func (r *Run) assume(st *State, cond string) {
	r.facts.Assert(sImp(st.pc, cond))
}

// ---------------------------------------------------------------------------
// Function execution

type execResult struct {
	st  *State
	val Val
}

const maxInlineDepth = 4

// execFunc symbolically executes fn from state st (which it may mutate) and returns
// the merged state and result value over all normal returns.
func (r *Run) execFunc(fr *Frame, st *State, args []Val, binds []Val) execResult {
	fn := fr.fn
	for _, f := range r.callStack {
		if f == fn {
			r.note("recursive call to " + fr.fname + " havoced")
			return execResult{st: st, val: r.freshVal("rec", fn.Signature.Results(), st)}
		}
	}
	r.callStack = append(r.callStack, fn)
	defer func() { r.callStack = r.callStack[:len(r.callStack)-1] }()

	for i, p := range fn.Params {
		if i < len(args) {
			v := args[i]
			v.T = p.Type()
			fr.vals[p] = v
			fr.names[p.Name()] = v
		}
	}
	for i, fv := range fn.FreeVars {
		if i < len(binds) {
			fr.vals[fv] = binds[i]
			fr.names["&"+fv.Name()] = binds[i]
		}
	}
	fr.entry = st.clone()
	if fr.contract != nil {
		for _, lc := range fr.contract.Locals {
			v, err := fr.eval(st, lc.Expr, nil)
			if err != nil {
				r.evalErrors = append(r.evalErrors, fmt.Sprintf("%s: local %s: %v", fr.fname, lc.Name, err))
				continue
			}
			r.set(st, "g|"+lc.Name, v.S)
		}
		for _, ac := range fr.contract.Ats {
			if ac.Kind == "bind" && ac.Sort != "" {
				cname := sym("bind|" + fr.inst + "|" + ac.Name)
				r.facts.DeclareFun(cname, nil, specSort(ac.Sort))
				fr.names[ac.Name] = sortToVal(ac.Sort, cname)
				r.names[fr.inst+":"+ac.Name] = cname
			}
		}
		for _, en := range fr.contract.Entry {
			v, err := fr.eval(st, en.Expr, nil)
			if err != nil {
				r.note(fmt.Sprintf("%s: entry %s: %v", fr.fname, en.Name, err))
				continue
			}
			fr.names[en.Name] = v
		}
	}
	blocks := fn.Blocks
	if len(blocks) == 0 {
		return execResult{st: st, val: r.freshVal("ext", fn.Signature.Results(), st)}
	}
	order := rpoNoBack(fn)
	in := map[*ssa.BasicBlock][]*State{}
	in[blocks[0]] = []*State{st}
	fr.runBlocks(order, in, nil, nil)

	// merge returns
	var sts []*State
	for _, rr := range fr.rets {
		sts = append(sts, rr.st)
	}
	out := r.mergeStates(sts)
	var res Val
	have := false
	for i := len(fr.rets) - 1; i >= 0; i-- {
		rr := fr.rets[i]
		if rr.st.pc == "false" {
			continue
		}
		if !have {
			res, have = rr.val, true
			continue
		}
		res = r.iteVal(rr.st.pc, rr.val, res)
	}
	if !have {
		res = r.zeroVal(fn.Signature.Results())
	}
	return execResult{st: out, val: res}
}

// rpoNoBack: reverse postorder of the CFG ignoring back edges (edges to a dominator).
func rpoNoBack(fn *ssa.Function) []*ssa.BasicBlock {
	seen := map[*ssa.BasicBlock]bool{}
	var post []*ssa.BasicBlock
	var dfs func(b *ssa.BasicBlock)
	dfs = func(b *ssa.BasicBlock) {
		seen[b] = true
		for _, s := range b.Succs {
			if s.Dominates(b) {
				continue
			}
			if !seen[s] {
				dfs(s)
			}
		}
		post = append(post, b)
	}
	dfs(fn.Blocks[0])
	for i, j := 0, len(post)-1; i < j; i, j = i+1, j-1 {
		post[i], post[j] = post[j], post[i]
	}
	return post
}

func naturalLoop(h *ssa.BasicBlock) map[*ssa.BasicBlock]bool {
	body := map[*ssa.BasicBlock]bool{h: true}
	var stack []*ssa.BasicBlock
	for _, p := range h.Preds {
		if h.Dominates(p) && !body[p] {
			body[p] = true
			stack = append(stack, p)
		}
	}
	for len(stack) > 0 {
		b := stack[len(stack)-1]
		stack = stack[:len(stack)-1]
		for _, p := range b.Preds {
			if !body[p] {
				body[p] = true
				stack = append(stack, p)
			}
		}
	}
	return body
}

type edgeState struct {
	from *ssa.BasicBlock
	st   *State
}

// runBlocks executes blocks in the given order. `in` holds incoming edge states.
// When region != nil only blocks inside it are executed and back edges to
// regionHead are collected in backOut instead of producing obligations.
func (fr *Frame) runBlocks(order []*ssa.BasicBlock, in map[*ssa.BasicBlock][]*State, region map[*ssa.BasicBlock]bool, backOut *[]*State) {
	r := fr.r
	inFrom := map[*ssa.BasicBlock][]*ssa.BasicBlock{}
	_ = inFrom
	preds := map[*ssa.BasicBlock][]edgeState{}
	for b, sts := range in {
		for _, s := range sts {
			preds[b] = append(preds[b], edgeState{nil, s})
		}
	}
	var regionHead *ssa.BasicBlock
	if region != nil {
		regionHead = order[0]
	}
	for _, b := range order {
		if region != nil && !region[b] {
			continue
		}
		es := preds[b]
		if len(es) == 0 {
			continue
		}
		var sts []*State
		for _, e := range es {
			sts = append(sts, e.st)
		}
		st := r.mergeStates(sts)
		if st.pc == "false" {
			continue
		}
		if fr.parent == nil && r.dry == 0 && fr.contract != nil && len(b.Preds) > 0 && os.Getenv("GPV_NO_BLOCK_COVERS") == "" {
			// cover: a block the symbolic execution reaches must not be refutably unreachable in the
			// VC (then every obligation in it would hold vacuously); `dead block <file:line>` in the
			// contract turns the cover into the proof obligation that the block is dead
			pos := token.NoPos
			for _, bi := range b.Instrs {
				if bi.Pos() != token.NoPos {
					pos = bi.Pos()
					break
				}
			}
			if len(b.Instrs) > 0 {
				switch b.Instrs[len(b.Instrs)-1].(type) {
				case *ssa.Return, *ssa.Panic:
					pos = token.NoPos // return sites have their own cover (or a `dead` declaration)
				}
			}
			if pos != token.NoPos {
				if r.coverPcs == nil {
					r.coverPcs = map[string][]string{}
					r.coverPos = map[string]string{}
				}
				k := fr.fname + "/vacuity/reach-block " + b.Comment + "@" + r.eng.pos(pos)
				if len(r.coverPcs[k]) < 40 {
					r.coverPcs[k] = append(r.coverPcs[k], st.pc)
					r.coverPos[k] = r.eng.pos(pos)
				}
			}
		}
		isHead := false
		for _, p := range b.Preds {
			if b.Dominates(p) {
				isHead = true
			}
		}
		// phi nodes (forward edges)
		phiVals := map[*ssa.Phi]Val{}
		for _, ins := range b.Instrs {
			phi, ok := ins.(*ssa.Phi)
			if !ok {
				break
			}
			var v Val
			have := false
			for i := len(es) - 1; i >= 0; i-- {
				e := es[i]
				if e.st.pc == "false" {
					continue
				}
				var ev Val
				if e.from == nil {
					// entry edge of a region: the caller pre-populated fr.vals
					if pv, ok := fr.vals[phi]; ok {
						ev = pv
					} else {
						ev = r.freshVal("phi_"+phi.Comment, phi.Type(), st)
					}
				} else {
					idx := predIndex(b, e.from)
					ev = fr.val(e.st, phi.Edges[idx])
				}
				if !have {
					v, have = ev, true
				} else {
					v = r.iteVal(e.st.pc, ev, v)
				}
			}
			v.T = phi.Type()
			phiVals[phi] = v
		}
		for phi, v := range phiVals {
			fr.vals[phi] = v
		}
		if isHead && !(region != nil && b == regionHead && backOut != nil && es[0].from == nil) {
			st = fr.enterLoop(b, st)
		} else if isHead && region != nil && b == regionHead {
			// dry run of this loop: state already havoced by caller
		}
		// execute instructions
		alive := true
		for _, ins := range b.Instrs {
			if _, ok := ins.(*ssa.Phi); ok {
				continue
			}
			fr.scope = fr.innerLoop[b]
			fr.curIns = ins
			if !fr.step(st, ins) {
				alive = false
				break
			}
			if st.pc == "false" {
				alive = false
				break
			}
		}
		if !alive {
			continue
		}
		// successors
		last := b.Instrs[len(b.Instrs)-1]
		var conds []string
		switch t := last.(type) {
		case *ssa.If:
			c := fr.val(st, t.Cond)
			conds = []string{c.S, sNot(c.S)}
		case *ssa.Jump:
			conds = []string{"true"}
		default:
			conds = nil
		}
		for i, s := range b.Succs {
			if i >= len(conds) {
				break
			}
			es := st.clone()
			if conds[i] != "true" {
				es.pc = r.facts.Define("pc", "Bool", sAnd(st.pc, conds[i]))
			}
			if s.Dominates(b) {
				// back edge
				if region != nil && s == regionHead && backOut != nil {
					*backOut = append(*backOut, es)
					// record phi edge values for modified-set computation
					continue
				}
				fr.checkInvariant(s, b, es, "inv-preserve")
				for _, lf := range fr.loopFrames[s] {
					p := r.facts.Fresh("lframep", "Int")
					goal := sImp(fmt.Sprintf("(<= (root %s) %s)", p, lf.hin), sEq(sSelect(r.get(es, lf.key), p), sSelect(lf.old, p)))
					r.require(es, "inv-preserve", fr.oblFunc(), fr.oblName(fmt.Sprintf("loop#%d.frame(%s)", fr.loopOrd[s], keyPrefix(lf.key))), goal, nil, s.Instrs[0].Pos(), "loop modifies only objects allocated inside it ("+lf.key+")")
				}
				continue
			}
			if region != nil && !region[s] {
				continue
			}
			preds[s] = append(preds[s], edgeState{b, es})
		}
	}
}

func predIndex(b, from *ssa.BasicBlock) int {
	for i, p := range b.Preds {
		if p == from {
			return i
		}
	}
	return 0
}

// phisOf lists the phi nodes of a block.
func phisOf(b *ssa.BasicBlock) []*ssa.Phi {
	var out []*ssa.Phi
	for _, ins := range b.Instrs {
		if p, ok := ins.(*ssa.Phi); ok {
			out = append(out, p)
		} else {
			break
		}
	}
	return out
}

// staticLoopCount: the loops a function contributes when inlined (its own plus those of helpers
// it would inline in turn).
func (e *Engine) staticLoopCount(fn *ssa.Function, depth int) int {
	if depth > 3 {
		return 0
	}
	n := 0
	for _, b := range fn.Blocks {
		for _, p := range b.Preds {
			if b.Dominates(p) {
				n++
				break
			}
		}
		for _, in := range b.Instrs {
			if c, ok := in.(*ssa.Call); ok {
				if callee := e.inlinableCallee(&c.Call); callee != nil && callee != fn {
					n += e.staticLoopCount(callee, depth+1)
				}
			}
		}
	}
	return n
}

// loopClauses finds the contract that speaks about loop header h and the loop's ordinal in it:
// the frame's own contract, or, for a helper without a contract inlined into a function under
// contract, that function's contract with the ordinal the loop has when the helper's loops are
// numbered at the call (extracting a loop into a helper keeps its invariants attached).
func (fr *Frame) loopClauses(h *ssa.BasicBlock) (*FuncContract, int, *Frame) {
	if fr.contract != nil {
		return fr.contract, fr.loopOrd[h], nil
	}
	k := fr.loopOrd[h]
	f := fr
	for f.contract == nil {
		if f.parent == nil || f.callSite == nil || f.parent.inlineLoopBase == nil {
			return nil, 0, nil
		}
		base, ok := f.parent.inlineLoopBase[f.callSite]
		if !ok {
			return nil, 0, nil
		}
		k += base
		f = f.parent
	}
	return f.contract, k, f
}

// checkInvariant emits invariant obligations for loop header h on the edge from `from` in state es.
func (fr *Frame) checkInvariant(h, from *ssa.BasicBlock, es *State, kind string) {
	r := fr.r
	lc, lord, laf := fr.loopClauses(h)
	if lc == nil {
		return
	}
	invs := lc.LoopInv[lord]
	oblFn := fr.fname
	if laf != nil {
		oblFn = laf.fname
		fr.liftTo = laf
		defer func() { fr.liftTo = nil }()
	}
	if len(invs) == 0 && kind != "inv-init" {
		// still check built-in range position invariant? nothing to check
		return
	}
	// bind phi names to the edge values
	saved := map[*ssa.Phi]Val{}
	idx := predIndex(h, from)
	for _, phi := range phisOf(h) {
		if old, ok := fr.vals[phi]; ok {
			saved[phi] = old
		}
	}
	newv := map[*ssa.Phi]Val{}
	for _, phi := range phisOf(h) {
		newv[phi] = fr.val(es, phi.Edges[idx])
	}
	for phi, v := range newv {
		v.T = phi.Type()
		fr.vals[phi] = v
	}
	_ = r
	savedScope := fr.scope
	fr.scope = h
	for i, c := range invs {
		fr.requireExpr(es, kind, oblFn, fmt.Sprintf("loop#%d.%d%s@%s", lord, i+1, tagSuffix(c.Tags), from.Comment+fmt.Sprint(from.Index)), c.Expr, nil, c.Tags, h.Instrs[0].Pos(), c.Text)
	}
	fr.scope = savedScope
	for _, phi := range phisOf(h) {
		if old, ok := saved[phi]; ok {
			fr.vals[phi] = old
		} else {
			delete(fr.vals, phi)
		}
	}
}

// enterLoop handles arrival at loop header h with the merged forward state st:
// inv-init obligations, modified-set discovery (dry run), havoc, assume invariant.
func (fr *Frame) enterLoop(h *ssa.BasicBlock, st *State) *State {
	r := fr.r
	lc, ord, laf := fr.loopClauses(h)
	var invs []Clause
	if lc != nil {
		invs = lc.LoopInv[ord]
	} else {
		ord = fr.loopOrd[h]
	}
	oblFn := fr.fname
	if laf != nil {
		oblFn = laf.fname
	}
	// inv-init: phi values are already the forward-edge merge
	fr.scope = h
	if fr.loopEntry == nil {
		fr.loopEntry = map[*ssa.BasicBlock]*State{}
	}
	fr.loopEntry[h] = st.clone()
	fr.liftTo = laf
	for i, c := range invs {
		fr.requireExpr(st, "inv-init", oblFn, fmt.Sprintf("loop#%d.%d%s", ord, i+1, tagSuffix(c.Tags)), c.Expr, nil, c.Tags, h.Instrs[0].Pos(), c.Text)
	}
	fr.liftTo = nil
	body := naturalLoop(h)
	// --- dry run to discover the modified set
	nFacts := r.facts.Len()
	decl := r.facts.SnapshotDecl()
	savedVals := make(map[ssa.Value]Val, len(fr.vals))
	for k, v := range fr.vals {
		savedVals[k] = v
	}
	savedOnce := copyBoolMap(r.once)
	savedMemo := copyStrMap(r.loadMemo)
	savedMem0 := copyStrMap(r.mem0)
	savedRets := len(fr.rets)
	savedObls := len(r.obls)
	savedStr := copyStrMap(r.strLits)
	savedCells := len(r.cells)
	savedLocks := len(r.locks)
	savedVol := len(r.volChans)
	savedPanics := len(fr.panics)
	r.dry++
	dst := st.clone()
	for _, phi := range phisOf(h) {
		fr.vals[phi] = r.freshVal("dphi_"+phi.Comment, phi.Type(), dst)
	}
	var order []*ssa.BasicBlock
	for _, b := range rpoNoBack(fr.fn) {
		if body[b] {
			order = append(order, b)
		}
	}
	// make h first
	for i, b := range order {
		if b == h {
			order[0], order[i] = order[i], order[0]
			break
		}
	}
	sort.SliceStable(order[1:], func(i, j int) bool { return false })
	var backs []*State
	fr.runBlocks(order, map[*ssa.BasicBlock][]*State{h: {dst}}, body, &backs)
	modMem := map[string]bool{}
	modLoc := map[string]bool{}
	for _, bs := range backs {
		for k, t := range bs.mem {
			if t != r.get(st, k) {
				modMem[k] = true
			}
		}
		for k, v := range bs.locals {
			if ov, ok := st.locals[k]; !ok || !sameVal(ov, v) {
				modLoc[k] = true
			}
		}
	}
	r.dry--
	r.facts.Rollback(nFacts, decl, 0)
	fr.vals = savedVals
	r.once = savedOnce
	r.loadMemo = savedMemo
	r.mem0 = savedMem0
	fr.rets = fr.rets[:savedRets]
	r.obls = r.obls[:savedObls]
	r.strLits = savedStr
	r.cells = r.cells[:savedCells]
	r.locks = r.locks[:savedLocks]
	r.volChans = r.volChans[:savedVol]
	fr.panics = fr.panics[:savedPanics]
	// keys created during the dry run must stay declared in memSort (harmless)

	// --- havoc
	hs := st.clone()
	for _, k := range sortedKeys(modMem) {
		if strings.HasPrefix(k, "d|") || k == "g|$recvd" {
			continue // receives made inside a loop are forgotten at its head (under-approximation)
		}
		old := r.get(st, k)
		r.havocKey(hs, k)
		if k == "g|$heap" {
			r.facts.Assert(fmt.Sprintf("(>= %s %s)", hs.mem[k], old))
		}
	}
	if lc != nil && lc.LoopFrame[ord] {
		hin := fr.topEntryHeap()
		var recs []loopFrameRec
		for _, k := range sortedKeys(modMem) {
			if !(strings.HasPrefix(k, "F|") || strings.HasPrefix(k, "C|") || strings.HasPrefix(k, "E|") || strings.HasPrefix(k, "MD|") || strings.HasPrefix(k, "MV|")) {
				continue
			}
			old := r.get(st, k)
			r.assume(hs, fmt.Sprintf("(forall ((p Int)) (! (=> (<= (root p) %s) (= (select %s p) (select %s p))) :pattern ((select %s p))))", hin, hs.mem[k], old, hs.mem[k]))
			recs = append(recs, loopFrameRec{k, old, hin})
		}
		if fr.loopFrames == nil {
			fr.loopFrames = map[*ssa.BasicBlock][]loopFrameRec{}
		}
		fr.loopFrames[h] = recs
	}
	for _, k := range sortedKeys(modLoc) {
		if ov, ok := st.locals[k]; ok {
			hs.locals[k] = r.freshVal("hloc", ov.T, hs)
		} else {
			delete(hs.locals, k)
		}
	}
	for _, phi := range phisOf(h) {
		nv := r.freshVal("phi_"+phi.Comment, phi.Type(), hs)
		fr.vals[phi] = nv
		r.names[fr.inst+":"+phi.Comment] = nv.S
		if phi.Comment == "rangeindex" && nv.K == KInt {
			// range-over-slice index: starts at -1 and only increments (built-in inductive invariant)
			r.assume(hs, "(>= "+nv.S+" (- 1))")
		}
	}
	// assume invariants
	fr.liftTo = laf
	for _, c := range invs {
		v, err := fr.eval(hs, c.Expr, nil)
		if err != nil {
			continue
		}
		r.assume(hs, v.S)
	}
	fr.liftTo = nil
	return hs
}

func tagSuffix(tags []string) string {
	if len(tags) == 0 {
		return ""
	}
	return "[" + tags[0] + "]"
}

func copyBoolMap(m map[string]bool) map[string]bool {
	n := make(map[string]bool, len(m))
	for k, v := range m {
		n[k] = v
	}
	return n
}

func copyStrMap(m map[string]string) map[string]string {
	n := make(map[string]string, len(m))
	for k, v := range m {
		n[k] = v
	}
	return n
}

func sameVal(a, b Val) bool {
	if a.K != b.K {
		return false
	}
	switch a.K {
	case KStruct, KTuple:
		if len(a.Fs) != len(b.Fs) {
			return false
		}
		for i := range a.Fs {
			if !sameVal(a.Fs[i], b.Fs[i]) {
				return false
			}
		}
		return true
	case KPtr:
		if a.P != nil && b.P != nil {
			return *a.P == *b.P
		}
		return a.P == nil && b.P == nil && a.S == b.S
	case KClosure:
		return a.Fn == b.Fn
	}
	return a.S == b.S
}

// inlinableCallee: the module function a call will be inlined into its caller (no contract of its own).
func (e *Engine) inlinableCallee(c *ssa.CallCommon) *ssa.Function {
	callee := c.StaticCallee()
	if callee == nil || len(callee.Blocks) == 0 || !e.isModuleFunc(callee) || callee.Parent() != nil {
		return nil
	}
	if fc := e.cs.Funcs[e.funcName(callee)]; fc != nil && fc.Flags["inline"] == nil {
		return nil
	}
	return callee
}

// anchorBasesOf lists the anchor base names an instruction contributes (shared by numbering and counting).
func (e *Engine) anchorBasesOf(calleeName func(*ssa.CallCommon) string, ins ssa.Instruction) []string {
	var out []string
	switch in := ins.(type) {
	case *ssa.Call:
		out = append(out, "call "+calleeName(&in.Call))
		for i, a := range in.Call.Args {
			if i > 1 {
				break
			}
			if c, ok := a.(*ssa.Const); ok && c.Value != nil && c.Value.Kind() == constant.String {
				out = append(out, "call "+calleeName(&in.Call)+"("+strconv.Quote(constant.StringVal(c.Value))+")")
				break
			}
		}
	case *ssa.Go:
		out = append(out, "call "+calleeName(&in.Call), "go")
	case *ssa.Select:
		out = append(out, "select")
	case *ssa.Send:
		out = append(out, "send")
	case *ssa.UnOp:
		if in.Op == token.ARROW {
			out = append(out, "recv")
		}
	case *ssa.TypeAssert:
		out = append(out, "typeassert")
	case *ssa.Store:
		if fa, ok := in.Addr.(*ssa.FieldAddr); ok {
			if st := structOf(fa.X.Type()); st != nil {
				out = append(out, "store "+structKey(fa.X.Type())+"."+st.Field(fa.Field).Name())
			}
		}
		if g, ok := in.Addr.(*ssa.Global); ok {
			out = append(out, "store global "+shortPkgDot(g.Pkg.Pkg.Path())+g.Name())
		}
	case *ssa.MapUpdate:
		out = append(out, "mapupdate")
	}
	return out
}

// staticAnchorCounts counts, per base name, the anchors a function contributes when inlined
// (its own statements plus those of helpers it would inline in turn).
func (e *Engine) staticAnchorCounts(fn *ssa.Function, depth int) map[string]int {
	out := map[string]int{}
	if depth > 3 {
		return out
	}
	tmp := &Run{eng: e}
	for _, b := range fn.Blocks {
		for _, ins := range b.Instrs {
			for _, base := range e.anchorBasesOf(tmp.calleeName, ins) {
				out[base]++
			}
			if _, isRange := ins.(*ssa.Range); isRange {
				out["range"]++
			}
			if c, ok := ins.(*ssa.Call); ok {
				if callee := e.inlinableCallee(&c.Call); callee != nil && callee != fn {
					for k, v := range e.staticAnchorCounts(callee, depth+1) {
						out[k] += v
					}
				}
			}
		}
	}
	return out
}

// refName maps the current name of a variable of fn back to the name the contracts were written
// with (names.json), so that contracts and anchors keyed by a variable name survive a rename.
func (r *Run) refName(fn *ssa.Function, cur string) string {
	if fn == nil || r.eng == nil {
		return cur
	}
	for old, c := range r.eng.aliasesFor(r.eng.funcName(fn), fn) {
		if c == cur {
			return old
		}
	}
	return cur
}
