#!/bin/bash
# usage: import_seeded.sh <seed-id> "<note>" <property> [more properties]
# copies /tmp/seeded/<seed-id> to /verif/seeded/<seed-id> and records which check catches it
id=$1; note=$2; shift 2
src=/tmp/seeded/$id; dst=/verif/seeded/$id
[ -d $src ] || { echo "no $src"; exit 1; }
mkdir -p $dst; cp $src/* $dst/ 2>/dev/null
out=$(MAXV=6 /verif/selftest/try_patch.sh $dst/patch.diff "$@" 2>&1)
echo "$out" | cut -c1-220
python3 - "$id" "$note" "$dst" <<PY "$out"
PY
python3 - "$id" "$note" "$dst" "$out" <<'PY'
import sys, json, re
id, note, dst, out = sys.argv[1:5]
viol = re.findall(r'VIOLATION property=(\S+) obligation="([^"]+)"', out)
exits = re.findall(r'^(C\d\d) exit=(\d+)', out, re.M)
json.dump({"seed": id, "checks_run": [e[0] for e in exits], "exit_codes": {e[0]: int(e[1]) for e in exits},
           "caught": any(e[1] == "1" for e in exits) and bool(viol),
           "violations": [{"property": p, "obligation": o} for p, o in viol], "note": note},
          open(dst + "/confirmed.json", "w"), indent=1)
PY
