package main

// Replay: turn the solver's (candidate) counterexample of a failed obligation into a run of the
// real code. For the functions listed in replaySpecs the engine evaluates a list of observable
// contract expressions in the function's entry state, asks the solver for their values in the
// model of the failed query, instantiates an in-package Go test from them and runs it with
// `go test -overlay` against the tree under verification (nothing is written into the
// repository). The test's oracle is written from the property statement, not from the contract.
// A replay counts only if the real code fails that oracle; otherwise the violation is still
// reported, marked no-failing-input-found.

import (
	"bytes"
	"context"
	"encoding/json"
	"fmt"
	"os"
	"os/exec"
	"path/filepath"
	"sort"
	"strconv"
	"strings"
	"text/template"
	"time"
)

type obsDecl struct {
	Name string
	Expr string // contract expression over the entry state; "$K" stands for a candidate key
}

type replaySpec struct {
	Func   string
	Obs    []obsDecl
	KeyObs []obsDecl // evaluated for every candidate integer key
	// extra candidate keys besides the integers found in the model
	Keys     []int
	Template string
}

const replayKeySym = "replay!K"

// evalObservables is called by verifyFunc once the entry state exists.
func (e *Engine) evalObservables(fr *Frame, st *State) map[string]string {
	spec, ok := replaySpecs[fr.fname]
	if !ok {
		return nil
	}
	out := map[string]string{}
	for _, lists := range [][]obsDecl{spec.Obs, spec.KeyObs} {
		for _, od := range lists {
			src := strings.ReplaceAll(od.Expr, "$K", "replayK")
			ex, err := parseExpr(src)
			if err != nil {
				continue
			}
			extra := map[string]Val{"replayK": intVal(replayKeySym)}
			v, err := fr.eval(st, ex, extra)
			if err != nil {
				continue
			}
			t := v.S
			if v.K == KPtr {
				t = fr.r.ptrTerm(v)
			}
			out[od.Name] = t
		}
	}
	return out
}

// splitSexprs splits a string into its top-level s-expressions / atoms.
func splitSexprs(s string) []string {
	var out []string
	i := 0
	for i < len(s) {
		c := s[i]
		if c == ' ' || c == '\n' || c == '\t' || c == '\r' {
			i++
			continue
		}
		if c == '(' {
			d, j := 0, i
			for j < len(s) {
				switch s[j] {
				case '(':
					d++
				case ')':
					d--
				case '|':
					k := strings.IndexByte(s[j+1:], '|')
					if k >= 0 {
						j += k + 1
					}
				case '"':
					k := strings.IndexByte(s[j+1:], '"')
					if k >= 0 {
						j += k + 1
					}
				}
				j++
				if d == 0 {
					break
				}
			}
			out = append(out, s[i:j])
			i = j
			continue
		}
		j := i
		if c == '|' {
			k := strings.IndexByte(s[i+1:], '|')
			if k >= 0 {
				j = i + k + 2
			}
		} else {
			for j < len(s) && s[j] != ' ' && s[j] != '\n' && s[j] != ')' && s[j] != '(' {
				j++
			}
		}
		out = append(out, s[i:j])
		i = j
	}
	return out
}

func smtValue(v string) (interface{}, bool) {
	v = strings.TrimSpace(v)
	switch v {
	case "true":
		return true, true
	case "false":
		return false, true
	}
	if n, err := strconv.ParseInt(v, 10, 64); err == nil {
		return n, true
	}
	if strings.HasPrefix(v, "(-") {
		inner := strings.TrimSpace(strings.TrimSuffix(strings.TrimPrefix(v, "(-"), ")"))
		if n, err := strconv.ParseInt(inner, 10, 64); err == nil {
			return -n, true
		}
	}
	return nil, false
}

// modelValues runs the query with (get-value) for the given terms; returns values of those the
// solver could evaluate to an integer or Boolean.
func modelValues(queryFile string, terms map[string]string, timeoutS int) map[string]interface{} {
	data, err := os.ReadFile(queryFile)
	if err != nil {
		return nil
	}
	src := string(data)
	src = strings.ReplaceAll(src, "(get-model)", "")
	names := make([]string, 0, len(terms))
	for n := range terms {
		names = append(names, n)
	}
	sort.Strings(names)
	var b strings.Builder
	b.WriteString(src)
	if !strings.Contains(src, "(check-sat)") {
		b.WriteString("\n(check-sat)\n")
	}
	for _, n := range names {
		b.WriteString("(get-value (" + terms[n] + "))\n")
	}
	f := strings.TrimSuffix(queryFile, ".smt2") + ".values.smt2"
	os.WriteFile(f, []byte(b.String()), 0o644)
	res := runSolver("z3-new", f, timeoutS)
	if res.Status != "sat" {
		return nil
	}
	parts := splitSexprs(res.Model)
	vals := map[string]interface{}{}
	for i, p := range parts {
		if i >= len(names) {
			break
		}
		// p = ((term value))
		inner := splitSexprs(strings.TrimSuffix(strings.TrimPrefix(strings.TrimSpace(p), "("), ")"))
		if len(inner) != 1 {
			continue
		}
		pair := splitSexprs(strings.TrimSuffix(strings.TrimPrefix(inner[0], "("), ")"))
		if len(pair) < 2 {
			continue
		}
		if v, ok := smtValue(pair[len(pair)-1]); ok {
			vals[names[i]] = v
		}
	}
	return vals
}

type replayOutcome struct {
	Confirmed bool
	Test      string
	Output    string
	Values    map[string]interface{}
	Note      string
}

// tryReplay builds and runs the replay test for a failed obligation; queryFile must be a query
// whose model is the (candidate) counterexample.
func tryReplay(repoDir, workDir string, fr *FuncResult, o *Obligation) *replayOutcome {
	spec, ok := replaySpecs[fr.Name]
	if !ok || len(fr.Obs) == 0 {
		return nil
	}
	var queries []string
	if o.File != "" {
		base := strings.TrimSuffix(strings.TrimSuffix(o.File, ".ground.smt2"), ".smt2")
		if o.Result != nil && o.Result.Status == "sat" {
			queries = append(queries, o.File)
		}
		// candidate counterexamples: model of the quantifier-free weakening, then of the instantiated query
		queries = append(queries, base+".cand.smt2", base+".ground.smt2")
	}
	out := &replayOutcome{}
	for _, q := range queries {
		if _, err := os.Stat(q); err != nil {
			continue
		}
		base := map[string]string{}
		for _, od := range spec.Obs {
			if t, ok := fr.Obs[od.Name]; ok {
				base[od.Name] = t
			}
		}
		vals := modelValues(q, base, 10)
		if vals == nil {
			continue
		}
		// candidate keys: integers occurring in the model values plus the spec's own
		keys := map[int64]bool{}
		for _, k := range spec.Keys {
			keys[int64(k)] = true
		}
		for _, v := range vals {
			if n, ok := v.(int64); ok && n > -(1<<62) && n < (1<<62) {
				keys[n] = true
			}
		}
		var ks []int64
		for k := range keys {
			ks = append(ks, k)
		}
		sort.Slice(ks, func(i, j int) bool { return ks[i] < ks[j] })
		if len(spec.KeyObs) > 0 {
			kt := map[string]string{}
			for _, k := range ks {
				lit := fmt.Sprint(k)
				if k < 0 {
					lit = fmt.Sprintf("(- %d)", -k)
				}
				for _, od := range spec.KeyObs {
					if t, ok := fr.Obs[od.Name]; ok {
						kt[fmt.Sprintf("%s@%d", od.Name, k)] = strings.ReplaceAll(t, replayKeySym, lit)
					}
				}
			}
			kv := modelValues(q, kt, 10)
			for n, v := range kv {
				vals[n] = v
			}
		}
		out.Values = vals
		src, err := renderReplay(spec, vals, ks)
		if err != nil {
			out.Note = "template: " + err.Error()
			continue
		}
		out.Test = src
		res, confirmed := runReplayTest(repoDir, workDir, src)
		out.Output = res
		if confirmed {
			out.Confirmed = true
			return out
		}
	}
	if out.Test == "" {
		// no (candidate) model could be read: the enumeration part of the test still runs
		if src, err := renderReplay(spec, map[string]interface{}{}, nil); err == nil {
			out.Test = src
			out.Note = "no solver model available; enumeration only"
			res, confirmed := runReplayTest(repoDir, workDir, src)
			out.Output = res
			out.Confirmed = confirmed
		}
	}
	return out
}

func renderReplay(spec replaySpec, vals map[string]interface{}, keys []int64) (string, error) {
	funcs := template.FuncMap{
		"int": func(name string, def int64) int64 {
			if v, ok := vals[name].(int64); ok {
				return v
			}
			return def
		},
		"bool": func(name string, def bool) bool {
			if v, ok := vals[name].(bool); ok {
				return v
			}
			return def
		},
		"has": func(name string) bool { _, ok := vals[name]; return ok },
		"keys": func() []int64 { return keys },
		"kbool": func(name string, k int64, def bool) bool {
			if v, ok := vals[fmt.Sprintf("%s@%d", name, k)].(bool); ok {
				return v
			}
			return def
		},
		"seq": func(n int64) []int64 {
			if n < 0 {
				n = 0
			}
			if n > 6 {
				n = 6
			}
			out := make([]int64, n)
			for i := range out {
				out[i] = int64(i)
			}
			return out
		},
		"idx": func(prefix string, i int64) string { return fmt.Sprintf("%s%d", prefix, i) },
	}
	t, err := template.New("replay").Funcs(funcs).Parse(spec.Template)
	if err != nil {
		return "", err
	}
	var b bytes.Buffer
	if err := t.Execute(&b, vals); err != nil {
		return "", err
	}
	return b.String(), nil
}

// runReplayTest injects the test with an overlay and runs it in the tree under verification.
func runReplayTest(repoDir, workDir, src string) (string, bool) {
	os.MkdirAll(workDir, 0o755)
	tf := filepath.Join(workDir, "replay_test.go")
	os.WriteFile(tf, []byte(src), 0o644)
	ov := map[string]map[string]string{"Replace": {filepath.Join(repoDir, "zz_gpverify_replay_test.go"): tf}}
	ovData, _ := json.Marshal(ov)
	of := filepath.Join(workDir, "overlay.json")
	os.WriteFile(of, ovData, 0o644)
	ctx, cancel := context.WithTimeout(context.Background(), 180*time.Second)
	defer cancel()
	cmd := exec.CommandContext(ctx, "go", "test", "-overlay", of, "-vet=off", "-count=1", "-timeout", "60s", "-run", "^TestGpverifyReplay$", ".")
	cmd.Dir = repoDir
	cmd.Env = append(os.Environ(), "GOFLAGS=-mod=mod", "GOPROXY=off", "GOSUMDB=off")
	var out bytes.Buffer
	cmd.Stdout = &out
	cmd.Stderr = &out
	_ = cmd.Run()
	o := out.String()
	if i := strings.Index(o, "REPLAY-VIOLATION"); i >= 0 {
		line := o[i:]
		if j := strings.IndexByte(line, '\n'); j >= 0 {
			line = line[:j]
		}
		tail := o
		if len(tail) > 1500 {
			tail = tail[len(tail)-1500:]
		}
		return line + "\n--- end of test output ---\n" + tail, true
	}
	if len(o) > 4000 {
		o = o[len(o)-4000:]
	}
	return o, false
}

var replaySpecs = map[string]replaySpec{}

func init() {
	for _, s := range []replaySpec{replayProtocolVersion, replayCheckProtoVersion, replaySecureCheck, replayParseJSON, replayFlattenKV} {
		replaySpecs[s.Func] = s
	}
}

// ---------------------------------------------------------------------------------------
// C02: protocolVersion. Inputs: PLUGIN_PROTOCOL_VERSIONS and the ServeConfig.

var replayProtocolVersion = replaySpec{
	Func: "protocolVersion",
	Obs: []obsDecl{
		{"pv", `opts.ProtocolVersion`},
		{"plugins", `opts.Plugins != nil`},
		{"vpnil", `opts.VersionedPlugins == nil`},
		{"grpc", `opts.GRPCServer != nil`},
		{"n", `split_n(getenv("PLUGIN_PROTOCOL_VERSIONS"), ",")`},
		{"empty", `getenv("PLUGIN_PROTOCOL_VERSIONS") == ""`},
		{"ok0", `atoi_ok(split_arr(getenv("PLUGIN_PROTOCOL_VERSIONS"), ",")[0])`},
		{"ok1", `atoi_ok(split_arr(getenv("PLUGIN_PROTOCOL_VERSIONS"), ",")[1])`},
		{"ok2", `atoi_ok(split_arr(getenv("PLUGIN_PROTOCOL_VERSIONS"), ",")[2])`},
		{"ok3", `atoi_ok(split_arr(getenv("PLUGIN_PROTOCOL_VERSIONS"), ",")[3])`},
		{"ok4", `atoi_ok(split_arr(getenv("PLUGIN_PROTOCOL_VERSIONS"), ",")[4])`},
		{"ok5", `atoi_ok(split_arr(getenv("PLUGIN_PROTOCOL_VERSIONS"), ",")[5])`},
		{"val0", `atoi_val(split_arr(getenv("PLUGIN_PROTOCOL_VERSIONS"), ",")[0])`},
		{"val1", `atoi_val(split_arr(getenv("PLUGIN_PROTOCOL_VERSIONS"), ",")[1])`},
		{"val2", `atoi_val(split_arr(getenv("PLUGIN_PROTOCOL_VERSIONS"), ",")[2])`},
		{"val3", `atoi_val(split_arr(getenv("PLUGIN_PROTOCOL_VERSIONS"), ",")[3])`},
		{"val4", `atoi_val(split_arr(getenv("PLUGIN_PROTOCOL_VERSIONS"), ",")[4])`},
		{"val5", `atoi_val(split_arr(getenv("PLUGIN_PROTOCOL_VERSIONS"), ",")[5])`},
	},
	KeyObs: []obsDecl{{"served", `$K in opts.VersionedPlugins`}},
	Keys:   []int{0, 1, 2, 3},
	Template: `package plugin

import (
	"fmt"
	"os"
	"sort"
	"strconv"
	"strings"
	"testing"
)

// generated by gpverify for a failed obligation of protocolVersion: first the input read off the
// solver's (candidate) model, then, if the real code handles that one correctly, the same shape of
// input reduced to scope 3 (versions 1..3, at most 3 list entries) is enumerated
func gpvReplayOne(env string, served []int, pv int, legacyOn, grpcOn bool) string {
	mark := func(v int) PluginSet { return PluginSet{"v" + strconv.Itoa(v): nil} }
	legacy := PluginSet{"legacy": nil}
	opts := &ServeConfig{HandshakeConfig: HandshakeConfig{ProtocolVersion: uint(pv), MagicCookieKey: "k", MagicCookieValue: "v"}}
	if legacyOn {
		opts.Plugins = legacy
	}
	if grpcOn {
		opts.GRPCServer = DefaultGRPCServer
	}
	set := map[int]PluginSet{}
	if served != nil {
		opts.VersionedPlugins = map[int]PluginSet{}
		for _, v := range served {
			opts.VersionedPlugins[v] = mark(v)
			set[v] = opts.VersionedPlugins[v]
		}
	}
	os.Setenv("PLUGIN_PROTOCOL_VERSIONS", env)
	defer os.Unsetenv("PLUGIN_PROTOCOL_VERSIONS")
	// oracle, from the property statement: highest common version, else the lowest served one,
	// else the legacy values; the plugin set is the one registered under the returned version
	host := map[int]bool{}
	if env != "" {
		for _, f := range strings.Split(env, ",") {
			if v, err := strconv.Atoi(f); err == nil {
				host[v] = true
			}
		}
	}
	if legacyOn {
		set[pv] = legacy
	}
	var all, common []int
	for v := range set {
		all = append(all, v)
		if host[v] {
			common = append(common, v)
		}
	}
	sort.Ints(all)
	sort.Ints(common)
	want := pv
	var wantSet PluginSet = opts.Plugins
	if len(common) > 0 {
		want = common[len(common)-1]
		wantSet = set[want]
	} else if len(all) > 0 {
		want = all[0]
		wantSet = set[want]
	}
	got, _, gotSet := protocolVersion(opts)
	same := func(a, b PluginSet) bool {
		if len(a) != len(b) {
			return false
		}
		for k := range a {
			if _, ok := b[k]; !ok {
				return false
			}
		}
		return true
	}
	if got != want || !same(gotSet, wantSet) {
		return fmt.Sprintf("PLUGIN_PROTOCOL_VERSIONS=%q served=%v legacy(version=%d,plugins=%v): protocolVersion returned version %d set %v, the property demands version %d set %v", env, all, pv, legacyOn, got, gotSet, want, wantSet)
	}
	return ""
}

func TestGpverifyReplay(t *testing.T) {
	pv := {{int "pv" 1}}
	if pv < 0 {
		pv = -pv
	}
	var served []int
	{{if not (bool "vpnil" false)}}served = []int{}
	{{range keys}}{{if kbool "served" . false}}served = append(served, {{.}})
	{{end}}{{end}}{{end}}
	var fields []string
	{{range seq (int "n" 0)}}{{if bool (idx "ok" .) false}}fields = append(fields, strconv.Itoa({{int (idx "val" .) 0}})){{else}}fields = append(fields, "x"){{end}}
	{{end}}
	env := strings.Join(fields, ",")
	{{if bool "empty" false}}env = ""{{end}}
	if bad := gpvReplayOne(env, served, pv, {{bool "plugins" false}}, {{bool "grpc" false}}); bad != "" {
		t.Fatalf("REPLAY-VIOLATION source=solver-model %s", bad)
	}
	t.Logf("input from the solver's model (env=%q served=%v pv=%d) is handled as demanded; enumerating scope 3", env, served, pv)
	tok := []string{"1", "2", "3", "x"}
	var envs []string
	envs = append(envs, "")
	for _, a := range tok {
		envs = append(envs, a)
		for _, b := range tok {
			envs = append(envs, a+","+b)
			for _, c := range tok {
				envs = append(envs, a+","+b+","+c)
			}
		}
	}
	for mask := 0; mask < 8; mask++ {
		sv := []int{}
		for b := 0; b < 3; b++ {
			if mask&(1<<b) != 0 {
				sv = append(sv, b+1)
			}
		}
		for _, legacyOn := range []bool{false, true} {
			for lpv := 1; lpv <= 3; lpv++ {
				for _, e := range envs {
					if bad := gpvReplayOne(e, sv, lpv, legacyOn, true); bad != "" {
						t.Fatalf("REPLAY-VIOLATION source=scope-3-enumeration %s", bad)
					}
				}
			}
		}
	}
}
`,
}

// ---------------------------------------------------------------------------------------
// C01/C02: (*Client).checkProtoVersion. Inputs: the version field and the client's versions.

var replayCheckProtoVersion = replaySpec{
	Func: "(*Client).checkProtoVersion",
	Obs: []obsDecl{
		{"ok", `atoi_ok(protoVersion)`},
		{"val", `atoi_val(protoVersion)`},
	},
	KeyObs: []obsDecl{{"offered", `$K in c.config.VersionedPlugins`}},
	Keys:   []int{0, 1, 2, 3},
	Template: `package plugin

import (
	"fmt"
	"strconv"
	"testing"
)

// generated by gpverify for a failed obligation of checkProtoVersion: the input read off the
// solver's (candidate) model first, then the same shape reduced to scope 3
func gpvReplayOne(field string, offered []int) string {
	cfg := &ClientConfig{VersionedPlugins: map[int]PluginSet{}}
	for _, v := range offered {
		cfg.VersionedPlugins[v] = PluginSet{"v" + strconv.Itoa(v): nil}
	}
	c := &Client{config: cfg}
	v, set, err := c.checkProtoVersion(field)
	n, perr := strconv.Atoi(field)
	_, isOffered := cfg.VersionedPlugins[n]
	wantOK := perr == nil && isOffered
	if (err == nil) != wantOK {
		return fmt.Sprintf("version field %q, offered versions %v: error %v, but a version is accepted exactly when it is a number the client offered", field, offered, err)
	}
	if err == nil {
		if v != n {
			return fmt.Sprintf("version field %q, offered %v: returned version %d", field, offered, v)
		}
		if _, ok := set["v"+strconv.Itoa(n)]; !ok || len(set) != 1 {
			return fmt.Sprintf("version field %q, offered %v: returned plugin set %v is not the one registered under %d", field, offered, set, n)
		}
	}
	return ""
}

func TestGpverifyReplay(t *testing.T) {
	offered := []int{}
	{{range keys}}{{if kbool "offered" . false}}offered = append(offered, {{.}})
	{{end}}{{end}}
	field := "x"
	{{if bool "ok" false}}field = strconv.Itoa({{int "val" 0}}){{end}}
	if bad := gpvReplayOne(field, offered); bad != "" {
		t.Fatalf("REPLAY-VIOLATION source=solver-model %s", bad)
	}
	for mask := 0; mask < 8; mask++ {
		sv := []int{}
		for b := 0; b < 3; b++ {
			if mask&(1<<b) != 0 {
				sv = append(sv, b+1)
			}
		}
		for _, f := range []string{"0", "1", "2", "3", "4", "x", "", "-1", "02"} {
			if bad := gpvReplayOne(f, sv); bad != "" {
				t.Fatalf("REPLAY-VIOLATION source=scope-3-enumeration %s", bad)
			}
		}
	}
}
`,
}

// ---------------------------------------------------------------------------------------
// C13: (*SecureConfig).Check. The hash is uninterpreted in the VCs, so the model only fixes the
// shape (lengths, nil-ness); the test derives concrete checksums from the real digest.

var replaySecureCheck = replaySpec{
	Func: "(*SecureConfig).Check",
	Obs: []obsDecl{
		{"cklen", `len(s.Checksum)`},
		{"hashnil", `s.Hash == nil`},
	},
	Template: `package plugin

import (
	"crypto/sha256"
	"fmt"
	"os"
	"path/filepath"
	"testing"
)

// generated by gpverify for a failed obligation of (*SecureConfig).Check: the shape read off the
// solver's model first, then checksums derived from the real digest (equal, prefix, extended, one
// bit flipped, empty) over a few file contents
func gpvReplayOne(t *testing.T, content, checksum []byte, withHash bool) string {
	p := filepath.Join(t.TempDir(), "bin")
	if err := os.WriteFile(p, content, 0o600); err != nil {
		t.Fatal(err)
	}
	sc := &SecureConfig{Checksum: checksum}
	if withHash {
		sc.Hash = sha256.New()
	}
	ok, err := sc.Check(p)
	sum := sha256.Sum256(content)
	want := withHash && len(checksum) > 0 && string(sum[:]) == string(checksum)
	if ok != want {
		return fmt.Sprintf("file of %d bytes, checksum of %d bytes (digest has %d), hash set=%v: Check returned %v (err %v), the property demands %v", len(content), len(checksum), len(sum), withHash, ok, err, want)
	}
	if err != nil && ok {
		return fmt.Sprintf("Check returned true together with error %v", err)
	}
	return ""
}

func TestGpverifyReplay(t *testing.T) {
	content := []byte("plugin binary")
	sum := sha256.Sum256(content)
	n := {{int "cklen" 32}}
	if n < 0 || n > 1<<16 {
		n = 32
	}
	ck := make([]byte, n)
	copy(ck, sum[:])
	if bad := gpvReplayOne(t, content, ck, {{not (bool "hashnil" false)}}); bad != "" {
		t.Fatalf("REPLAY-VIOLATION source=solver-model %s", bad)
	}
	for _, c := range [][]byte{[]byte("plugin binary"), {}, []byte("x")} {
		s := sha256.Sum256(c)
		flipped := append([]byte{}, s[:]...)
		flipped[len(flipped)-1] ^= 1
		for _, ck := range [][]byte{s[:], s[:16], append(append([]byte{}, s[:]...), 0), append(append([]byte{}, s[:]...), s[:]...), flipped, {}, nil} {
			for _, h := range []bool{true, false} {
				if bad := gpvReplayOne(t, c, ck, h); bad != "" {
					t.Fatalf("REPLAY-VIOLATION source=scope-enumeration %s", bad)
				}
			}
		}
	}
}
`,
}

// ---------------------------------------------------------------------------------------
// C10: parseJSON and flattenKVPairs. JSON text is an uninterpreted string in the VCs; the test
// enumerates small documents over the hclog keys with values of every JSON type.

var replayParseJSON = replaySpec{
	Func: "parseJSON",
	Obs:  []obsDecl{{"n", `len(input)`}},
	Template: `package plugin

import (
	"encoding/json"
	"fmt"
	"sort"
	"strings"
	"testing"
)

// generated by gpverify for a failed obligation of parseJSON: small JSON documents over the hclog
// keys (@message, @level, @timestamp) with values of every JSON type plus ordinary keys
func gpvReplayOne(doc string) (bad string) {
	defer func() {
		if r := recover(); r != nil {
			bad = fmt.Sprintf("input %s: parseJSON panicked: %v", doc, r)
		}
	}()
	entry, err := parseJSON([]byte(doc))
	var raw map[string]interface{}
	if json.Unmarshal([]byte(doc), &raw) != nil {
		if err == nil {
			return fmt.Sprintf("input %s is not a JSON object but parseJSON returned no error", doc)
		}
		return ""
	}
	if err != nil {
		return "" // an error is an allowed answer (the caller falls back to the raw line)
	}
	want := map[string]interface{}{}
	for k, v := range raw {
		want[k] = v
	}
	if s, ok := raw["@message"].(string); ok {
		if entry.Message != s {
			return fmt.Sprintf("input %s: message %q", doc, entry.Message)
		}
		delete(want, "@message")
	}
	if s, ok := raw["@level"].(string); ok {
		if entry.Level != s {
			return fmt.Sprintf("input %s: level %q", doc, entry.Level)
		}
		delete(want, "@level")
	}
	if _, ok := raw["@timestamp"].(string); ok {
		delete(want, "@timestamp")
	}
	got := map[string]int{}
	for _, kv := range entry.KVPairs {
		got[kv.Key]++
		if fmt.Sprint(kv.Value) != fmt.Sprint(raw[kv.Key]) {
			return fmt.Sprintf("input %s: key %q has value %v", doc, kv.Key, kv.Value)
		}
	}
	var missing []string
	for k := range want {
		if got[k] != 1 {
			missing = append(missing, k)
		}
	}
	sort.Strings(missing)
	if len(missing) > 0 || len(got) != len(want) {
		return fmt.Sprintf("input %s: remaining keys %v are not enumerated exactly once (got %v)", doc, missing, got)
	}
	return ""
}

func TestGpverifyReplay(t *testing.T) {
	vals := []string{` + "`\"text\"`" + `, "1", "true", "null", "[1]", ` + "`{\"a\":1}`" + `, ` + "`\"2006-01-02T15:04:05.000000Z\"`" + `}
	keys := []string{"@message", "@level", "@timestamp", "foo"}
	for _, k1 := range keys {
		for _, v1 := range vals {
			docs := []string{"{" + strconvQuote(k1) + ":" + v1 + "}"}
			for _, k2 := range keys {
				if k2 != k1 {
					docs = append(docs, "{"+strconvQuote(k1)+":"+v1+","+strconvQuote(k2)+":\"x\"}")
				}
			}
			for _, d := range docs {
				if bad := gpvReplayOne(d); bad != "" {
					t.Fatalf("REPLAY-VIOLATION source=scope-enumeration %s", bad)
				}
			}
		}
	}
	for _, d := range []string{"", "{", "[]", "null", "{}", strings.Repeat(" ", {{int "n" 0}} % 7)} {
		if bad := gpvReplayOne(d); bad != "" {
			t.Fatalf("REPLAY-VIOLATION source=scope-enumeration %s", bad)
		}
	}
}

func strconvQuote(s string) string { return "\"" + s + "\"" }
`,
}

var replayFlattenKV = replaySpec{
	Func: "flattenKVPairs",
	Obs:  []obsDecl{{"n", `len(kvs)`}},
	Template: `package plugin

import (
	"fmt"
	"testing"
)

// generated by gpverify for a failed obligation of flattenKVPairs: lists of the length read off the
// solver's model and of lengths 0..4
func gpvReplayOne(n int) string {
	var kvs []*logEntryKV
	for i := 0; i < n; i++ {
		kvs = append(kvs, &logEntryKV{Key: fmt.Sprintf("k%d", i), Value: i * 7})
	}
	out := flattenKVPairs(kvs)
	if len(out) != 2*n {
		return fmt.Sprintf("%d pairs flattened to %d elements", n, len(out))
	}
	for i := 0; i < n; i++ {
		if out[2*i] != interface{}(kvs[i].Key) || out[2*i+1] != kvs[i].Value {
			return fmt.Sprintf("%d pairs: element %d/%d is (%v,%v), the property demands (%v,%v)", n, 2*i, 2*i+1, out[2*i], out[2*i+1], kvs[i].Key, kvs[i].Value)
		}
	}
	return ""
}

func TestGpverifyReplay(t *testing.T) {
	n := {{int "n" 1}}
	if n >= 0 && n < 1000 {
		if bad := gpvReplayOne(n); bad != "" {
			t.Fatalf("REPLAY-VIOLATION source=solver-model %s", bad)
		}
	}
	for k := 0; k <= 4; k++ {
		if bad := gpvReplayOne(k); bad != "" {
			t.Fatalf("REPLAY-VIOLATION source=scope-enumeration %s", bad)
		}
	}
}
`,
}
