package main

import (
	"fmt"
	"go/types"
	"strings"

	"golang.org/x/tools/go/ssa"
)

// fieldKey returns the memory key of a scalar field and declares it.
func (r *Run) fieldKey(structK string, f *types.Var) string {
	k, srt := kindOf(f.Type())
	if !isScalar(k) {
		panic("fieldKey on non-scalar field " + structK + "." + f.Name())
	}
	key := "F|" + structK + "|" + f.Name()
	r.declKey(key, "(Array Int "+srt+")")
	return key
}

func (r *Run) cellKey(t types.Type) string {
	k, srt := kindOf(t)
	if !isScalar(k) {
		panic("cellKey on non-scalar " + t.String())
	}
	key := "C|" + typeKey(t)
	r.declKey(key, "(Array Int "+srt+")")
	return key
}

func (r *Run) elemKey(t types.Type) string {
	k, srt := kindOf(t)
	if !isScalar(k) {
		panic("elemKey on non-scalar " + t.String())
	}
	key := "E|" + typeKey(t)
	r.declKey(key, "(Array Int (Array Int "+srt+"))")
	return key
}

func (r *Run) mapKeys(mt *types.Map) (dk, vk, ksort, vsort string, ok bool) {
	kk, ks := kindOf(mt.Key())
	vkind, vs := kindOf(mt.Elem())
	if !isScalar(kk) || !isScalar(vkind) {
		return "", "", "", "", false
	}
	tk := typeKey(mt)
	dk, vk = "MD|"+tk, "MV|"+tk
	r.declKey(dk, "(Array Int (Array "+ks+" Bool))")
	r.declKey(vk, "(Array Int (Array "+ks+" "+vs+"))")
	return dk, vk, ks, vs, true
}

// subObj is the reference of a struct/array nested by value in field f of object base.
func (r *Run) subObj(structK string, f string, base string) string {
	fn := sym("sub|" + structK + "|" + f)
	inv := sym("subinv|" + structK + "|" + f)
	r.facts.DeclareFun(fn, []string{"Int"}, "Int")
	r.facts.DeclareFun(inv, []string{"Int"}, "Int")
	t := sApp(fn, base)
	key := "subax|" + t
	if !r.once[key] {
		r.once[key] = true
		id := r.kindID("sub|" + structK + "|" + f)
		r.facts.Assert(fmt.Sprintf("(and (= (%s %s) %s) (= (refkind %s) %d) (< %s 0) (= (root %s) (root %s)))", inv, t, base, t, id, t, t, base))
	}
	return t
}

// elemObj is the reference of a struct nested by value as element idx of array object base.
func (r *Run) elemObj(elemK string, base, idx string) string {
	fn := sym("eobj|" + elemK)
	r.facts.DeclareFun(fn, []string{"Int", "Int"}, "Int")
	inv1 := sym("eobjb|" + elemK)
	inv2 := sym("eobji|" + elemK)
	r.facts.DeclareFun(inv1, []string{"Int"}, "Int")
	r.facts.DeclareFun(inv2, []string{"Int"}, "Int")
	t := sApp(fn, base, idx)
	key := "eobjax|" + t
	if !r.once[key] {
		r.once[key] = true
		id := r.kindID("eobj|" + elemK)
		r.facts.Assert(fmt.Sprintf("(and (= (%s %s) %s) (= (%s %s) %s) (= (refkind %s) %d) (< %s 0) (= (root %s) (root %s)))", inv1, t, base, inv2, t, idx, t, id, t, t, base))
	}
	return t
}

func (r *Run) kindID(s string) int {
	if id, ok := r.kindIDs[s]; ok {
		return id
	}
	id := len(r.kindIDs) + 1
	r.kindIDs[s] = id
	return id
}

// objRef returns the object reference designated by a pointer-to-struct/array value.
func objRef(v Val) string { return v.S }

// fieldPtr computes &base.f for struct pointer value p (KRef) and field index i.
func (r *Run) fieldPtr(p Val, i int) Val {
	st := structOf(p.T)
	if st == nil {
		return Val{K: KInvalid}
	}
	f := st.Field(i)
	sk := structKey(p.T)
	ft := f.Type()
	ek, _ := kindOfElem(ft)
	pt := types.NewPointer(ft)
	if ek == KStruct {
		return Val{K: KRef, T: pt, S: r.subObj(sk, f.Name(), p.S)}
	}
	if !isScalar(ek) {
		return Val{K: KInvalid, T: pt}
	}
	return Val{K: KPtr, T: pt, P: &Place{Kind: PField, Base: p.S, Struct: sk, Field: f.Name(), Elem: ft}}
}

// load reads through a pointer value.
func (r *Run) load(st *State, p Val) Val {
	pt, ok := p.T.Underlying().(*types.Pointer)
	if !ok {
		return Val{K: KInvalid}
	}
	et := pt.Elem()
	switch p.K {
	case KRef:
		// pointer to struct: load whole struct value
		if s, ok := et.Underlying().(*types.Struct); ok {
			v := Val{K: KStruct, T: et}
			for i := 0; i < s.NumFields(); i++ {
				v.Fs = append(v.Fs, r.load(st, r.fieldPtr(p, i)))
			}
			return v
		}
		return Val{K: KInvalid, T: et}
	case KPtr:
		k, _ := kindOf(et)
		if p.P == nil {
			if p.S == "" {
				return Val{K: KInvalid, T: et}
			}
			key := r.cellKey(et)
			v := Val{K: k, T: et, S: r.readArr(r.get(st, key), p.S)}
			return r.loaded(st, v, key, p.S)
		}
		switch p.P.Kind {
		case PLocal:
			if v, ok := st.locals[p.P.Local]; ok {
				return v
			}
			return r.zeroVal(et)
		case PGlobal:
			return r.loadGlobal(st, p.P.Global)
		case PField:
			key := "F|" + p.P.Struct + "|" + p.P.Field
			_, srt := kindOf(et)
			r.declKey(key, "(Array Int "+srt+")")
			v := Val{K: k, T: et, S: r.readArr(r.get(st, key), p.P.Base)}
			return r.loaded(st, v, key, p.P.Base)
		case PElem:
			key := r.elemKey(et)
			v := Val{K: k, T: et, S: sSelect(sSelect(r.get(st, key), p.P.Base), p.P.Index)}
			return r.loaded(st, v, key, p.P.Base)
		case PCell:
			if cv := r.constCell[p.P.Base]; cv != nil {
				return *cv
			}
			key := r.cellKey(et)
			v := Val{K: k, T: et, S: r.readArr(r.get(st, key), p.P.Base)}
			return r.loaded(st, v, key, p.P.Base)
		}
	}
	return Val{K: KInvalid, T: et}
}

// loaded names a loaded value and attaches its type invariants.
func (r *Run) loaded(st *State, v Val, key, idx string) Val {
	if r.inQuant > 0 && strings.Contains(v.S, "!q") {
		return v
	}
	memo := "ld|" + v.S
	if n, ok := r.loadMemo[memo]; ok {
		v.S = n
		return v
	}
	_, srt := kindOf(v.T)
	n := r.facts.Fresh("ld", srt)
	r.facts.Assert(sEq(n, v.S))
	r.loadMemo[memo] = n
	v.S = n
	// closed entry heap: a location of an object that existed at entry, read from memory this
	// function has not written on any path so far, refers to an object that existed at entry
	entryMem := key != "" && !strings.HasPrefix(key, "g|") && r.get(st, key) == r.initial(key)
	h0 := r.initial("g|$heap")
	if entryMem && idx != "" {
		switch v.K {
		case KSlice:
			r.facts.Assert(fmt.Sprintf("(=> (<= (root %s) %s) (<= (root (s_base %s)) %s))", idx, h0, v.S, h0))
		case KRef, KPtr:
			r.facts.Assert(fmt.Sprintf("(=> (<= (root %s) %s) (<= (root %s) %s))", idx, h0, v.S, h0))
		}
	}
	switch v.K {
	case KInt:
		if lo, hi, ok := intRange(v.T); ok {
			r.facts.Assert(fmt.Sprintf("(and (<= %s %s) (<= %s %s))", lo, v.S, v.S, hi))
		}
	case KSlice:
		r.assumeWellTyped(v, st)
	case KRef, KPtr:
		r.facts.Assert(fmt.Sprintf("(<= (root %s) %s)", v.S, r.get(st, "g|$heap")))
	case KIface:
		r.facts.Assert(fmt.Sprintf("(= (= %s 0) (= (itag %s) 0))", v.S, v.S))
	}
	return v
}

func (r *Run) loadGlobal(st *State, g *ssa.Global) Val {
	et := g.Type().(*types.Pointer).Elem()
	k, srt := kindOf(et)
	name := shortPkgDot(g.Pkg.Pkg.Path()) + g.Name()
	if k == KStruct {
		return r.load(st, Val{K: KRef, T: g.Type(), S: r.globalAddr(name)})
	}
	if !isScalar(k) {
		return Val{K: KInvalid, T: et}
	}
	key := "G|" + name
	r.declKey(key, srt)
	v := Val{K: k, T: et, S: r.get(st, key)}
	if !r.once["gwt|"+v.S] {
		r.once["gwt|"+v.S] = true
		r.assumeWellTyped(v, nil)
		if k == KIface && r.eng.isStableNonNilGlobal(name) {
			r.facts.Assert("(not (= " + v.S + " 0))")
		}
	}
	return v
}

func (r *Run) globalAddr(name string) string {
	c := r.facts.Const(sym("gaddr|"+name), "Int")
	if !r.once["gaddr|"+name] {
		r.once["gaddr|"+name] = true
		r.facts.Assert(fmt.Sprintf("(and (< %s 0) (= (refkind %s) %d) (= (root %s) %s))", c, c, r.kindID("gaddr|"+name), c, c))
	}
	return c
}

// store writes through a pointer value.
func (r *Run) store(st *State, p Val, v Val) bool {
	pt, ok := p.T.Underlying().(*types.Pointer)
	if !ok {
		return false
	}
	et := pt.Elem()
	switch p.K {
	case KRef:
		if s, ok := et.Underlying().(*types.Struct); ok {
			if v.K != KStruct || len(v.Fs) != s.NumFields() {
				// unknown struct value: havoc all fields
				for i := 0; i < s.NumFields(); i++ {
					fp := r.fieldPtr(p, i)
					r.store(st, fp, r.freshVal("hv", s.Field(i).Type(), st))
				}
				return true
			}
			for i := 0; i < s.NumFields(); i++ {
				r.store(st, r.fieldPtr(p, i), v.Fs[i])
			}
			return true
		}
		return false
	case KPtr:
		if v.K == KInvalid {
			v = r.freshVal("hv", et, st)
			if v.K == KInvalid {
				return false
			}
		}
		if p.P == nil {
			if p.S == "" {
				return false
			}
			key := r.cellKey(et)
			r.setStore(st, key, r.get(st, key), p.S, v.S)
			return true
		}
		switch p.P.Kind {
		case PLocal:
			st.locals[p.P.Local] = v
			return true
		case PGlobal:
			name := shortPkgDot(p.P.Global.Pkg.Pkg.Path()) + p.P.Global.Name()
			k, srt := kindOf(et)
			if !isScalar(k) {
				return false
			}
			key := "G|" + name
			r.declKey(key, srt)
			r.set(st, key, v.S)
			return true
		case PField:
			key := "F|" + p.P.Struct + "|" + p.P.Field
			_, srt := kindOf(et)
			r.declKey(key, "(Array Int "+srt+")")
			r.setStore(st, key, r.get(st, key), p.P.Base, v.S)
			return true
		case PElem:
			key := r.elemKey(et)
			arr := r.get(st, key)
			r.set(st, key, sStore(arr, p.P.Base, sStore(sSelect(arr, p.P.Base), p.P.Index, v.S)))
			return true
		case PCell:
			key := r.cellKey(et)
			r.setStore(st, key, r.get(st, key), p.P.Base, v.S)
			return true
		}
	}
	return false
}

// alloc creates a fresh object reference (strictly above the heap counter).
func (r *Run) alloc(st *State, prefix string) string {
	a := r.facts.Fresh(prefix, "Int")
	h := r.get(st, "g|$heap")
	r.facts.Assert(fmt.Sprintf("(and (> %s %s) (> %s 0) (= (refkind %s) 0) (= (root %s) %s))", a, h, a, a, a, a))
	st.mem["g|$heap"] = a
	r.allocs[a] = true
	return a
}

// ptrTerm gives an SMT Int for a pointer value (for nil tests / passing to specs).
func (r *Run) ptrTerm(p Val) string {
	if p.K != KPtr {
		return p.S
	}
	if p.P == nil {
		return p.S
	}
	switch p.P.Kind {
	case PField:
		fn := sym("addr|" + p.P.Struct + "|" + p.P.Field)
		r.facts.DeclareFun(fn, []string{"Int"}, "Int")
		t := sApp(fn, p.P.Base)
		if !r.once["addrax|"+t] {
			r.once["addrax|"+t] = true
			r.facts.Assert("(and (< " + t + " 0) (= (root " + t + ") (root " + p.P.Base + ")))")
		}
		return t
	case PElem:
		fn := sym("eaddr|" + typeKey(p.P.Elem))
		r.facts.DeclareFun(fn, []string{"Int", "Int"}, "Int")
		t := sApp(fn, p.P.Base, p.P.Index)
		if !r.once["addrax|"+t] {
			r.once["addrax|"+t] = true
			r.facts.Assert("(and (< " + t + " 0) (= (root " + t + ") (root " + p.P.Base + ")))")
		}
		return t
	case PCell:
		return p.P.Base
	case PLocal:
		c := r.facts.Const(sym("laddr|"+p.P.Local), "Int")
		if !r.once["laddr|"+c] {
			r.once["laddr|"+c] = true
			r.facts.Assert("(< " + c + " 0)")
		}
		return c
	case PGlobal:
		return r.globalAddr(shortPkgDot(p.P.Global.Pkg.Pkg.Path()) + p.P.Global.Name())
	}
	return "0"
}
