package main

import (
	"fmt"
	"path/filepath"
	"strings"

	"golang.org/x/tools/go/ssa"
)

// checkLemmas proves the pure-SMT lemmas tagged with the property: the goal must
// follow from the stated hypotheses (which are contract clauses restated) and axioms.
func (e *Engine) checkLemmas(prop, work string, timeout int) []*Obligation {
	var out []*Obligation
	var frs []*FuncResult
	for _, lm := range e.cs.Lemmas {
		if !hasProp(lm.Tags, prop) {
			continue
		}
		r := newRun(e, nil)
		r.assertAxioms()
		cf := &Frame{r: r, fname: "lemma " + lm.Name, vals: map[ssa.Value]Val{}, names: map[string]Val{}}
		st := newState()
		cf.entry = st
		bad := false
		for _, h := range lm.Hyps {
			if strings.HasPrefix(h.Text, "var ") {
				continue
			}
			ev := &evaluator{fr: cf, r: r, st: st, old: st, bound: map[string]Val{}}
			for n, v := range lm.Vars {
				ev.bound[n] = sortToVal(v, r.facts.Const(sym("lv|"+n), specSort(v)))
			}
			v, err := ev.evalTop(h.Expr)
			if err != nil {
				fmt.Printf("lemma %s: %v\n", lm.Name, err)
				bad = true
				continue
			}
			r.facts.Assert(v.S)
		}
		ev := &evaluator{fr: cf, r: r, st: st, old: st, bound: map[string]Val{}}
		for n, v := range lm.Vars {
			ev.bound[n] = sortToVal(v, r.facts.Const(sym("lv|"+n), specSort(v)))
		}
		g, err := ev.evalTop(lm.Goal.Expr)
		if err != nil || bad {
			fmt.Printf("lemma %s: %v\n", lm.Name, err)
			out = append(out, &Obligation{Name: "lemma/" + lm.Name, Kind: "lemma", Tags: lm.Tags, Result: &SolverResult{Status: "error"}})
			continue
		}
		o := &Obligation{Name: "lemma/" + lm.Name, Kind: "lemma", Func: "lemma", Tags: lm.Tags, NFacts: r.facts.Len(), Pc: "true", Goal: g.S, Text: lm.Goal.Text}
		frs = append(frs, &FuncResult{Name: "lemma " + lm.Name, Obls: []*Obligation{o}, Facts: r.facts.lines})
		out = append(out, o)
	}
	if len(frs) > 0 {
		solveAll(filepath.Join(work, "lemmas"), frs, timeout, 4)
	}
	return out
}
