#!/bin/bash
# usage: confirm_seed.sh <seed-id> <worktree> "<note>"
# Confirms a seed delivered in /tmp/seeded/<seed-id> independently of the agent that wrote it:
#   demonstration passes on the unchanged worktree, fails with patch.diff applied, and the
#   existing suite (without the demonstration) still passes with the change;
# then runs the property's check on a scratch copy (try_patch.sh) and, if all of that
# holds, copies the seed to /verif/seeded/<seed-id> with confirmed.json. Never touches /repo.
s=$1; wt=$2; note=$3; p=${s%%-*}; src=/tmp/seeded/$s; log=/var/tmp/sanity; mkdir -p $log
export PATH=/root/go/pkg/mod/golang.org/toolchain@v0.0.1-go1.24.0.linux-amd64/bin:$PATH GOTOOLCHAIN=local GOFLAGS=-mod=mod GOPROXY=off GOSUMDB=off
[ -f $src/patch.diff ] || { echo "$s: no patch.diff"; exit 2; }
t=$(ls $src/*_test.go | head -1); name=${DEMO:-$(grep -o 'func Test[A-Za-z0-9_]*' $t | grep -vi helper | head -1 | cut -d' ' -f2)}   # DEMO=<test name> overrides
( MAXV=6 /verif/selftest/try_patch.sh $src/patch.diff $p > $log/try-$s.log 2>&1 ) & tp=$!
cd $wt && git checkout -q -- . && git clean -fdq
pkg=$(dirname $(grep -m1 '^+++ b/' $src/patch.diff | sed 's|+++ b/||')); case "$pkg" in internal/*) ;; *) pkg=. ;; esac
cp $t $wt/$pkg/
(cd $wt/$pkg && go test -vet=off -count=1 -timeout 180s -run "^$name\$" . > $log/demo-$s-clean.log 2>&1); a=$?
git apply $src/patch.diff || { echo "$s: patch does not apply"; exit 2; }
(cd $wt/$pkg && go test -vet=off -count=1 -timeout 180s -run "^$name\$" . > $log/demo-$s-broken.log 2>&1); b=$?
rm -f $wt/$pkg/$(basename $t)
go build ./... && go test -vet=off -count=1 -timeout 10m . ./internal/... > $log/suite-$s.log 2>&1; c=$?
if [ $c -ne 0 ]; then go test -vet=off -count=1 -timeout 10m . ./internal/... > $log/suite-$s.log 2>&1; c=$?; fi   # the suite is flaky by itself: one retry
git checkout -q -- . ; git clean -fdq
wait $tp
echo "$s demo_clean=$a demo_with_change=$b suite_with_change=$c"
cut -c1-240 $log/try-$s.log
if [ $a -eq 0 ] && [ $b -ne 0 ] && [ $c -eq 0 ]; then
  mkdir -p /verif/seeded/$s; cp $src/* /verif/seeded/$s/
  python3 - "$s" "$p" "$note" <<'PY'
import sys, json, re
s, p, note = sys.argv[1:4]
out = open(f'/var/tmp/sanity/try-{s}.log').read()
viol = re.findall(r'VIOLATION property=(\S+) obligation="([^"]+)"', out)
exits = re.findall(r'^(C\d\d) exit=(\d+)', out, re.M)
caught = any(e[1] == "1" for e in exits) and bool(viol)
json.dump({"seed": s, "checks_run": [e[0] for e in exits], "exit_codes": {e[0]: int(e[1]) for e in exits},
           "caught": caught, "violations": [{"property": a, "obligation": o} for a, o in viol],
           "note": note if caught else "first run: NOT reported; " + note},
          open(f'/verif/seeded/{s}/confirmed.json', 'w'), indent=1)
m = json.load(open(f'/verif/seeded/{s}/meta.json'))
m["ran"] = f"tools/confirm_seed.sh: demonstration on clean and changed worktree, existing suite with the change, selftest/try_patch.sh patch.diff {p}"
json.dump(m, open(f'/verif/seeded/{s}/meta.json', 'w'), indent=1)
print(s, "imported; caught =", caught)
PY
else
  echo "$s NOT CONFIRMED (not imported)"
fi
