#!/bin/bash
# Must-fail corpus: every mutant (applied to a scratch copy of /repo) must yield a VIOLATION
# for its property; every harmless patch must stay quiet. Usage: run_mutants.sh [pattern]
pat=${1:-}
cd /verif/selftest
fail=0
run_one() {
  patch=/verif/selftest/$1; expect=$2
  name=$(basename $patch .patch)
  prop=${name%%-*}
  tmp=$(mktemp -d /var/tmp/gpv.XXXXXX)
  rsync -a --exclude .git /repo/ $tmp/repo/
  if ! (cd $tmp/repo && patch -p1 -s < $patch); then echo "PATCH-FAILED $name"; rm -rf $tmp; return 1; fi
  out=$(GPV_REPO=$tmp/repo /verif/bin/gpverify check -p $prop -scratch $tmp/out 2>&1); code=$?
  rm -rf $tmp
  if [ "$expect" = "fail" ]; then
    if [ $code -eq 1 ] && echo "$out" | grep -q "^VIOLATION property=$prop"; then
      echo "KILLED  $name: $(echo "$out" | grep -c '^VIOLATION') violation(s): $(echo "$out" | grep '^VIOLATION' | head -2 | sed 's/.*obligation=//' | tr '\n' ' ')"
    else
      echo "MISSED  $name (exit $code): $(echo "$out" | tail -2 | tr '\n' ' ')"; return 1
    fi
  else
    if [ $code -eq 0 ]; then echo "QUIET   $name"; else echo "ALARM   $name (exit $code): $(echo "$out" | grep -v '^property=' | head -3 | tr '\n' ' ')"; return 1; fi
  fi
}
export -f run_one
ls mutants/*$pat*.patch 2>/dev/null | xargs -P 4 -I{} bash -c 'run_one {} fail' | sort
ls harmless/*$pat*.patch 2>/dev/null | xargs -P 4 -I{} bash -c 'run_one {} pass' | sort
