#!/bin/bash
# every behaviour-preserving edit must leave EVERY property's check quiet, not only the one it was written for
out=${1:-/var/tmp/harmless_all.log}; : > $out
run() {
  p=$1; id=$(basename $p .patch)
  tmp=$(mktemp -d /var/tmp/gpvh.XXXXXX)
  mkdir -p $tmp/repo && git -C /repo archive HEAD | tar -x -C $tmp/repo
  if ! (cd $tmp/repo && patch -p1 -s < $p); then echo "$id PATCH-FAILED"; rm -rf $tmp; return; fi
  bad=""
  for prop in C01 C02 C03 C04 C05 C06 C07 C08 C09 C10 C11 C12 C13 C14 C15 C16 C17 C18 C19 C20; do
    o=$(GPV_REPO=$tmp/repo GPV_NO_REPLAY=1 /verif/bin/gpverify check -p $prop -scratch $tmp/out 2>&1); c=$?
    if [ $c -ne 0 ]; then bad="$bad $prop(exit$c:$(echo "$o" | grep -m1 'VIOLATION\|UNDECIDED' | sed 's/.*obligation=//; s/replay=[^ ]* //' | cut -c1-110))"; fi
  done
  rm -rf $tmp
  if [ -z "$bad" ]; then echo "$id ALL-QUIET"; else echo "$id ALARMS:$bad"; fi
}
export -f run
ls ${PATCHES:-/verif/selftest/harmless/*.patch} | xargs -P 4 -I{} bash -c 'run {}' >> $out
echo DONE >> $out
