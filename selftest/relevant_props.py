#!/usr/bin/env python3
"""relevant_props.py <patch> <own-prop>: the properties whose check examines a function the patch
touches (by hunk header / changed func lines), always including the patch's own property.
Function sets per property are read from /var/tmp/propfuncs/Cxx.txt (gpverify list -p Cxx)."""
import re, sys, glob, os
patch, own = sys.argv[1], sys.argv[2]
touched = set()
for l in open(patch, errors='replace'):
    m = None
    if l.startswith('@@'):
        m = re.search(r'@@.*@@\s*func\s*(\(([^)]*)\))?\s*([A-Za-z_0-9]+)', l)
    elif l[:1] in '+- ' and re.match(r'^[+\- ]func\b', l):
        m = re.search(r'func\s*(\(([^)]*)\))?\s*([A-Za-z_0-9]+)', l)
    if m:
        recv = (m.group(2) or '').split()
        t = recv[-1].lstrip('*') if recv else ''
        touched.add((t, m.group(3)))
props = {own}
for f in sorted(glob.glob('/var/tmp/propfuncs/C*.txt')):
    p = os.path.basename(f)[:-4]
    for e in open(f).read().split('\n'):
        base = e.split('$')[0]
        for t, n in touched:
            if t:
                if re.search(r'[(.*]' + re.escape(t) + r'\)\.' + re.escape(n) + r'$', base):
                    props.add(p)
            elif base == n or (base.endswith('.' + n) and '(' not in base):
                props.add(p)
print(' '.join(sorted(props)))
