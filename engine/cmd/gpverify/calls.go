package main

import (
	"fmt"
	"go/token"
	"go/types"
	"strings"

	"golang.org/x/tools/go/ssa"
)

// atAnchors processes "at <anchor> assert/assume/bind" clauses attached to an instruction.
func (fr *Frame) atAnchors(st *State, ins ssa.Instruction, after bool, extra map[string]Val) {
	if fr.contract == nil && fr.parent != nil && !fr.spawned {
		// an inlined helper without a contract of its own (e.g. lines extracted from the function
		// under contract): its statements answer to the enclosing contract's anchors, provided the
		// enclosing function has no statement of that kind itself (otherwise ordinals would be ambiguous)
		af := fr.parent
		for af != nil && af.contract == nil && af.parent != nil && !af.spawned {
			af = af.parent
		}
		if af != nil && af.contract != nil && len(af.contract.Ats) > 0 {
			var exposed []string
			for _, n := range fr.anchors[ins] {
				i := strings.LastIndex(n, "#")
				if i <= 0 {
					continue
				}
				base := n[:i]
				var k int
				fmt.Sscan(n[i+1:], &k)
				if base == "return" || base == "panic" || strings.HasPrefix(base, "defer") {
					continue
				}
				// lift the ordinal through the chain of inlined frames up to the contract's function
				ok := true
				for f := fr; f != af; f = f.parent {
					if f.parent == nil || f.callSite == nil || f.parent.inlineBase == nil || f.parent.inlineBase[f.callSite] == nil {
						ok = false
						break
					}
					k += f.parent.inlineBase[f.callSite][base]
				}
				if ok {
					exposed = append(exposed, fmt.Sprintf("%s#%d", base, k))
				}
			}
			if len(exposed) > 0 {
				af.liftFrom = fr
				af.atAnchorsNamed(st, ins, after, extra, exposed)
				af.liftFrom = nil
			}
		}
		return
	}
	if fr.contract == nil || len(fr.contract.Ats) == 0 {
		return
	}
	names := fr.anchors[ins]
	if len(names) == 0 {
		return
	}
	fr.atAnchorsNamed(st, ins, after, extra, names)
}

// hasAnchorBase: does the function's own body contain a statement with this anchor base name?
func (fr *Frame) hasAnchorBase(base string) bool {
	for _, ns := range fr.anchors {
		for _, n := range ns {
			if strings.HasPrefix(n, base+"#") {
				return true
			}
		}
	}
	return false
}

func (fr *Frame) atAnchorsNamed(st *State, ins ssa.Instruction, after bool, extra map[string]Val, names []string) {
	r := fr.r
	for _, ac := range fr.contract.Ats {
		if ac.After != after {
			continue
		}
		match := false
		for _, n := range names {
			if n == ac.Anchor {
				match = true
			}
		}
		if !match {
			continue
		}
		r.usedAts[fr.fname+"|"+ac.Anchor+"|"+ac.Text] = true
		if ac.Kind == "assert" && r.dry == 0 && st.pc != "false" && strings.TrimSpace(ac.Text) != "false" {
			// cover (emitted once per anchor at the end of the function): an assert clause at a
			// statement that is unreachable on every path would hold vacuously
			if r.coverPcs == nil {
				r.coverPcs = map[string][]string{}
				r.coverPos = map[string]string{}
			}
			k := fr.oblFunc() + "/vacuity/reach-" + fr.oblName(ac.Anchor)
			if len(r.coverPcs[k]) < 40 {
				dup := false
				for _, p := range r.coverPcs[k] {
					if p == st.pc {
						dup = true
					}
				}
				if !dup {
					r.coverPcs[k] = append(r.coverPcs[k], st.pc)
				}
			}
			r.coverPos[k] = r.eng.pos(ins.Pos())
		}
		if ac.Kind == "assert" {
			fr.requireExpr(st, "assert", fr.oblFunc(), fr.oblName(ac.Anchor+":"+ac.Label(clip(ac.Text, 30))), ac.Expr, extra, ac.Tags, ins.Pos(), ac.Text)
			continue
		}
		v, err := fr.eval(st, ac.Expr, extra)
		if err != nil {
			r.note(fmt.Sprintf("%s: at %s: %q: %v", fr.fname, ac.Anchor, ac.Text, err))
			continue
		}
		switch ac.Kind {
		case "assert":
			r.require(st, "assert", fr.oblFunc(), fr.oblName(ac.Anchor+":"+ac.Label(clip(ac.Text, 30))), v.S, ac.Tags, ins.Pos(), ac.Text)
		case "assume":
			r.assume(st, v.S)
			r.assumes[fmt.Sprintf("assume at %s %s: %s", fr.fname, ac.Anchor, ac.Text)] = true
		case "set":
			if _, ok := r.eng.cs.Ghosts[ac.Name]; !ok {
				r.evalErrors = append(r.evalErrors, fmt.Sprintf("%s: set of undeclared ghost %s", fr.fname, ac.Name))
				continue
			}
			r.set(st, "g|"+ac.Name, v.S)
		case "bind":
			// total binding: a fresh constant equal to the value on paths through the anchor
			if isScalar(v.K) || v.K == KSpec {
				srt := scalarSort(v.K)
				if v.K == KSpec {
					srt = v.Sort
				}
				cname := sym("bind|" + fr.inst + "|" + ac.Name)
				r.facts.DeclareFun(cname, nil, srt)
				t := v.S
				if v.K == KPtr {
					t = r.ptrTerm(v)
				}
				r.facts.Assert(sImp(st.pc, sEq(cname, t)))
				nv := v
				nv.S = cname
				if v.K == KPtr {
					nv = v // keep structure
				}
				fr.names[ac.Name] = nv
				r.names[fr.inst+":"+ac.Name] = cname
			} else {
				fr.names[ac.Name] = v
			}
		}
	}
}

func (fr *Frame) checkEnsures(st *State, ret *ssa.Return, result Val) {
	r := fr.r
	if fr.contract == nil {
		return
	}
	extra := fr.resultNames(result)
	_ = r
	for i, c := range fr.contract.Ensures {
		fr.requireExpr(st, "ensures", fr.fname, fmt.Sprintf("%s(%d)@%s", c.Label("ensures"), i+1, fr.anchorName(ret, "return")), c.Expr, extra, c.Tags, ret.Pos(), c.Text)
	}
}

func (fr *Frame) resultNames(result Val) map[string]Val {
	extra := map[string]Val{"result": result}
	res := fr.fn.Signature.Results()
	if res.Len() == 1 {
		extra["result0"] = result
		if n := res.At(0).Name(); n != "" && n != "_" {
			extra[n] = result
		}
	} else if result.K == KTuple {
		for i := 0; i < res.Len() && i < len(result.Fs); i++ {
			extra[fmt.Sprintf("result%d", i)] = result.Fs[i]
			if n := res.At(i).Name(); n != "" && n != "_" {
				extra[n] = result.Fs[i]
			}
		}
	}
	return extra
}

// call handles a call instruction (also used for defers at rundefers time).
func (fr *Frame) call(st *State, ins ssa.Instruction, c *ssa.CallCommon, pos token.Pos, mode string) Val {
	r := fr.r
	name := r.calleeName(c)
	sig := c.Signature()
	var recv *Val
	var args []Val
	if c.IsInvoke() {
		rv := fr.val(st, c.Value)
		recv = &rv
		fr.nopanic(st, "nilcall("+fr.describe(c.Value)+"."+c.Method.Name()+")", sNot(sEq(rv.S, "0")), pos, "method call on nil interface "+fr.describe(c.Value))
	}
	for _, a := range c.Args {
		args = append(args, fr.val(st, a))
	}
	extra := map[string]Val{}
	if recv != nil {
		extra["recv"] = *recv
	}
	// static method: first arg is the receiver
	if !c.IsInvoke() && sig.Recv() != nil && len(args) > 0 {
		extra["recv"] = args[0]
		for i, a := range args[1:] {
			extra[fmt.Sprintf("arg%d", i)] = a
		}
	} else {
		for i, a := range args {
			extra[fmt.Sprintf("arg%d", i)] = a
		}
	}
	if mode == "call" {
		fr.atAnchors(st, ins, false, extra)
	}
	var res Val
	switch v := c.Value.(type) {
	case *ssa.Builtin:
		res = fr.builtin(st, ins, v.Name(), c, args, pos)
		goto done
	}
	{
		// resolve callee
		var callee *ssa.Function
		var binds []Val
		if !c.IsInvoke() {
			switch v := c.Value.(type) {
			case *ssa.Function:
				callee = v
			case *ssa.MakeClosure:
				cv := fr.val(st, v)
				callee, binds = cv.Fn, cv.Bind
			default:
				fv := fr.val(st, c.Value)
				extra["fnval"] = fv
				if fv.K == KClosure {
					callee, binds = fv.Fn, fv.Bind
				} else if fv.Fn != nil {
					callee = fv.Fn
				} else {
					t := fv.S
					if t != "" {
						fr.nopanic(st, "nilcall("+fr.describe(c.Value)+")", sNot(sEq(t, "0")), pos, "call of nil function value "+fr.describe(c.Value))
					}
				}
			}
		} else if recv != nil && recv.Fn != nil {
			_ = recv
		}
		if callee != nil {
			name = r.eng.funcName(callee)
		}
		fc := r.eng.cs.Funcs[name]
		if fc != nil && fc.Flags["inline"] == nil {
			res = fr.applyContract(st, ins, fc, callee, sig, recv, args, pos, name, c)
		} else if callee != nil && len(callee.Blocks) > 0 && r.eng.isModuleFunc(callee) && fr.depth < maxInlineDepth {
			r.inlined[name] = true
			sub := r.newFrame(callee, fr)
			sub.callSite = ins
			out := r.execFunc(sub, st, args, binds)
			*st = *out.st
			res = out.val
			// a panic inside an inlined callee ends those paths; obligations were emitted there
		} else {
			res = fr.defaultCall(st, name, callee, sig, recv, args, c)
		}
	}
done:
	res.T = sig.Results()
	if sig.Results().Len() == 1 {
		res.T = sig.Results().At(0).Type()
	}
	if mode == "call" {
		ex2 := map[string]Val{}
		for k, v := range extra {
			ex2[k] = v
		}
		ex2["ret"] = res
		if res.K == KTuple {
			for i, f := range res.Fs {
				ex2[fmt.Sprintf("ret%d", i)] = f
			}
		} else {
			ex2["ret0"] = res
		}
		fr.atAnchors(st, ins, true, ex2)
	}
	return res
}

func (e *Engine) isModuleFunc(fn *ssa.Function) bool {
	p := fn.Pkg
	if p == nil && fn.Parent() != nil {
		p = fn.Parent().Pkg
	}
	for f := fn; p == nil && f != nil; f = f.Parent() {
		p = f.Pkg
	}
	return p != nil && e.modPkgSet[p.Pkg]
}

// applyContract: assert requires, havoc modifies, assume ensures.
func (fr *Frame) applyContract(st *State, ins ssa.Instruction, fc *FuncContract, callee *ssa.Function, sig *types.Signature, recv *Val, args []Val, pos token.Pos, name string, c *ssa.CallCommon) Val {
	r := fr.r
	r.usedSpecs[name] = true
	// a pseudo-frame for evaluating the callee's contract in the caller's state
	cf := &Frame{r: r, fn: fr.fn, fname: name, inst: fr.inst, vals: map[ssa.Value]Val{}, names: map[string]Val{}, parent: nil}
	if callee != nil {
		cf.fn = callee
	}
	if !c.IsInvoke() {
		if _, isFn := c.Value.(*ssa.Function); !isFn {
			if _, isB := c.Value.(*ssa.Builtin); !isB {
				cf.names["fnval"] = fr.val(st, c.Value)
			}
		}
	}
	bindParam := func(n string, v Val) {
		if n != "" && n != "_" {
			cf.names[n] = v
		}
	}
	if recv != nil {
		cf.names["recv"] = *recv
		for i, a := range args {
			cf.names[fmt.Sprintf("arg%d", i)] = a
			if i < sig.Params().Len() {
				a.T = sig.Params().At(i).Type()
				cf.names[fmt.Sprintf("arg%d", i)] = a
				bindParam(sig.Params().At(i).Name(), a)
			}
		}
	} else if sig.Recv() != nil && len(args) > 0 {
		rv := args[0]
		rv.T = sig.Recv().Type()
		cf.names["recv"] = rv
		bindParam(sig.Recv().Name(), rv)
		for i, a := range args[1:] {
			if i < sig.Params().Len() {
				a.T = sig.Params().At(i).Type()
				bindParam(sig.Params().At(i).Name(), a)
			}
			cf.names[fmt.Sprintf("arg%d", i)] = a
		}
	} else {
		for i, a := range args {
			if i < sig.Params().Len() {
				a.T = sig.Params().At(i).Type()
				bindParam(sig.Params().At(i).Name(), a)
			}
			cf.names[fmt.Sprintf("arg%d", i)] = a
		}
	}
	if callee != nil {
		for i, p := range callee.Params {
			if i < len(args) {
				a := args[i]
				a.T = p.Type()
				cf.names[p.Name()] = a
			}
		}
	}
	pre := st.clone()
	cf.entry = pre
	for _, ac := range fc.Ats {
		if ac.Kind == "bind" && ac.Sort != "" {
			// internal ghost bindings of the callee are existential for the caller
			cf.names[ac.Name] = sortToVal(ac.Sort, r.facts.Fresh("cb_"+ac.Name, specSort(ac.Sort)))
		}
	}
	for _, en := range fc.Entry {
		v, err := cf.eval(pre, en.Expr, nil)
		if err != nil {
			r.note(fmt.Sprintf("contract %s: entry %s: %v", name, en.Name, err))
			continue
		}
		cf.names[en.Name] = v
	}
	// requires
	for i, rq := range fc.Requires {
		lbl := rq.Label(fmt.Sprintf("#%d", i+1))
		tags := rq.Tags
		if ins := fr.callAnchor(c, name); ins != "" {
			lbl = ins + ":" + lbl
		}
		cf.requireExpr(st, "requires@call", fr.oblFunc(), fr.oblName(lbl), rq.Expr, nil, tags, pos, "precondition of "+name+": "+rq.Text)
	}
	// special semantics hooks (locks, once, waitgroups...) keyed by flag
	if fc.Flags["lock"] != nil && len(args) > 0 {
		fr.lockOp(st, c, args[0], true, pos)
	}
	if fc.Flags["unlock"] != nil && len(args) > 0 {
		fr.lockOp(st, c, args[0], false, pos)
	}
	if fc.Flags["blocking"] != nil {
		fr.blockingCallAt(st, ins, name, fc, c)
	} else if !fc.Extern && fc.Flags["bounded"] == nil && fc.Flags["nonblocking"] == nil {
		// a module callee that is not itself under a bounded-wait contract may block
		site := fr.callAnchor(c, name)
		if site == "" {
			site = "call " + name
		}
		fr.boundedWait(st, ins, site, "false")
	}
	for _, which := range fc.Flags["maybe_calls"] {
		if v, ok := cf.names[which]; ok {
			fr.maybeCall(st, v, false)
		}
	}
	for _, which := range fc.Flags["calls"] {
		if v, ok := cf.names[which]; ok {
			fr.maybeCall(st, v, true)
		}
	}
	if name == "(*sync.Once).Do" && len(c.Args) > 0 {
		// `once o: f` on the struct type: Do returns only after the one execution of the closing
		// function has completed (by this call or an earlier one), and the module scan shows the
		// channel is closed nowhere else and never reassigned: afterwards the channel is closed
		if fa, ok := c.Args[0].(*ssa.FieldAddr); ok {
			if so := structOf(fa.X.Type()); so != nil {
				if tc := r.eng.cs.Types[structKey(fa.X.Type())]; tc != nil {
					for _, oc := range tc.Flags["once"] {
						parts := strings.SplitN(oc, ":", 2)
						if len(parts) != 2 || strings.TrimSpace(parts[0]) != so.Field(fa.Field).Name() {
							continue
						}
						fld := strings.TrimSpace(parts[1])
						for i := 0; i < so.NumFields(); i++ {
							if so.Field(i).Name() != fld {
								continue
							}
							obj := fr.val(st, fa.X)
							key := r.fieldKey(structKey(fa.X.Type()), so.Field(i))
							{
								chv := sSelect(r.get(st, key), obj.S)
								r.set(st, "g|$closed", sStore(r.get(st, "g|$closed"), chv, "true"))
								r.assumes["sync.Once: after Do returns the guarded function has completed once ("+structKey(fa.X.Type())+"."+fld+" is closed)"] = true
							}
						}
					}
				}
			}
		}
	}
	// the callee may allocate: bump the heap counter first so that values havoced below
	// (which are assumed to be existing references) may refer to the callee's new objects
	if fc.Flags["allocates"] != nil || !fc.Extern {
		old := r.get(st, "g|$heap")
		r.havocKey(st, "g|$heap")
		r.facts.Assert(fmt.Sprintf("(>= %s %s)", st.mem["g|$heap"], old))
	}
	// modifies
	if fc.HasModifies {
		for _, m := range fc.Modifies {
			if err := cf.havocLvalue(st, m.Expr); err != nil {
				r.note(fmt.Sprintf("contract %s: modifies %q: %v", name, m.Text, err))
				r.evalErrors = append(r.evalErrors, fmt.Sprintf("contract %s: modifies %q: %v", name, m.Text, err))
			}
		}
	} else if !fc.Extern {
		esc := map[string]bool{}
		escapedCells(args, esc)
		fr.havocHeapExcept(st, esc)
		for name := range r.eng.cs.Ghosts {
			r.havocKey(st, "g|"+name)
		}
	}
	// result
	var res Val
	rt := sig.Results()
	if fc.Flags["fresh_result"] != nil && rt.Len() >= 1 {
		// first result is a freshly allocated object
		res = r.freshVal("res", rt, st)
	} else {
		res = r.freshVal("res", rt, st)
	}
	if rt.Len() == 1 && res.K == KTuple {
		res = res.Fs[0]
	}
	if fc.Flags["noreturn"] != nil {
		st.pc = "false"
		return res
	}
	extra := map[string]Val{"result": res}
	if rt.Len() == 1 {
		extra["result0"] = res
		if n := rt.At(0).Name(); n != "" && n != "_" {
			extra[n] = res
		}
	} else if res.K == KTuple {
		for i := range res.Fs {
			extra[fmt.Sprintf("result%d", i)] = res.Fs[i]
			if n := rt.At(i).Name(); n != "" && n != "_" {
				extra[n] = res.Fs[i]
			}
		}
	}
	for _, en := range fc.Ensures {
		if hasTag(en.Tags, "internal") {
			continue // speaks about the callee's internal ghost values; proved there, not used by callers
		}
		v, err := cf.eval(st, en.Expr, extra)
		if err != nil {
			r.note(fmt.Sprintf("contract %s: ensures %q: %v", name, en.Text, err))
			r.evalErrors = append(r.evalErrors, fmt.Sprintf("contract %s: ensures %q: %v", name, en.Text, err))
			continue
		}
		r.assume(st, v.S)
	}
	return res
}

func (fr *Frame) callAnchor(c *ssa.CallCommon, name string) string {
	for ins, names := range fr.anchors {
		var cc *ssa.CallCommon
		switch x := ins.(type) {
		case *ssa.Call:
			cc = &x.Call
		case *ssa.Go:
			cc = &x.Call
		case *ssa.Defer:
			cc = &x.Call
		}
		if cc == c && len(names) > 0 {
			if fr.curRet != "" {
				return names[0] + "@" + fr.curRet
			}
			return names[0]
		}
	}
	return ""
}

// havocLvalue havocs what a modifies clause designates.
func (fr *Frame) havocLvalue(st *State, e *Expr) error {
	r := fr.r
	// ghost variable or whole-key forms
	if e.Op == "id" {
		if _, ok := r.eng.cs.Ghosts[e.Name]; ok {
			r.havocKey(st, "g|"+e.Name)
			return nil
		}
		if e.Name == "everything" {
			fr.havocAll(st)
			return nil
		}
		if e.Name == "heap" {
			fr.havocHeap(st)
			return nil
		}
		if e.Name == "heap_fresh" {
			return nil // the callee allocates and initialises only objects of its own
		}
	}
	if e.Op == "call" {
		switch e.Name {
		case "elems":
			x, err := fr.eval(st, e.Args[0], nil)
			if err != nil {
				return err
			}
			if x.K != KSlice || x.T == nil {
				return fmt.Errorf("elems() of non-slice")
			}
			et := x.T.Underlying().(*types.Slice).Elem()
			if k, _ := kindOf(et); !isScalar(k) {
				return nil
			}
			key := r.elemKey(et)
			_, srt := kindOf(et)
			inner := r.facts.Fresh("hvelems", "(Array Int "+srt+")")
			r.set(st, key, sStore(r.get(st, key), sApp("s_base", x.S), inner))
			return nil
		case "fields":
			x, err := fr.eval(st, e.Args[0], nil)
			if err != nil {
				return err
			}
			if x.K != KRef || x.T == nil {
				return fmt.Errorf("fields() of non-object")
			}
			r.havocObject(st, x, 0)
			return nil
		case "boxed":
			// boxed(x, "*T"): the cell pointed to by the *T inside interface value x, if x holds a *T
			x, err := fr.eval(st, e.Args[0], nil)
			if err != nil {
				return err
			}
			if len(e.Args) != 2 || e.Args[1].Op != "str" {
				return fmt.Errorf("boxed(x, \"*T\") expected")
			}
			ev := &evaluator{fr: fr, r: r, st: st, old: fr.entry, bound: map[string]Val{}}
			var pt types.Type
			func() {
				defer func() { recover() }()
				pt = ev.resolveType(e.Args[1].Str)
			}()
			if pt == nil {
				return fmt.Errorf("boxed: unknown type %s", e.Args[1].Str)
			}
			p := r.unbox(pt, x.S)
			p.T = pt
			if p.K != KPtr {
				return nil
			}
			et := pt.Underlying().(*types.Pointer).Elem()
			old := r.load(st, p)
			nv := r.freshVal("hvbox", et, st)
			cond := fmt.Sprintf("(= (itag %s) %d)", x.S, r.typeTag(pt))
			r.store(st, p, r.iteVal(cond, nv, old))
			return nil
		case "mapof":
			x, err := fr.eval(st, e.Args[0], nil)
			if err != nil {
				return err
			}
			if mt, ok := x.T.Underlying().(*types.Map); ok {
				if dk, vk, ks, vs, ok := r.mapKeys(mt); ok {
					r.set(st, dk, sStore(r.get(st, dk), x.S, r.facts.Fresh("hvdom", "(Array "+ks+" Bool)")))
					r.set(st, vk, sStore(r.get(st, vk), x.S, r.facts.Fresh("hvval", "(Array "+ks+" "+vs+")")))
				}
			}
			return nil
		}
	}
	ev := &evaluator{fr: fr, r: r, st: st, old: fr.entry, bound: map[string]Val{}, pkg: fr.fn.Pkg}
	var p Val
	var err error
	func() {
		defer func() {
			if x := recover(); x != nil {
				if ee, ok := x.(evalErr); ok {
					err = ee.err
					return
				}
				panic(x)
			}
		}()
		p = ev.place(e)
	}()
	if err != nil {
		return err
	}
	if p.K == KRef {
		r.havocObject(st, p, 0)
		return nil
	}
	if p.K != KPtr {
		return fmt.Errorf("cannot havoc %s", e)
	}
	et := p.T.Underlying().(*types.Pointer).Elem()
	r.store(st, p, r.freshVal("hv", et, st))
	return nil
}

// havocObject havocs all scalar fields (recursively through by-value nested structs) of an object.
func (r *Run) havocObject(st *State, p Val, depth int) {
	pt, ok := p.T.Underlying().(*types.Pointer)
	if !ok || depth > 3 {
		return
	}
	switch u := pt.Elem().Underlying().(type) {
	case *types.Struct:
		for i := 0; i < u.NumFields(); i++ {
			fp := r.fieldPtr(p, i)
			switch fp.K {
			case KPtr:
				r.store(st, fp, r.freshVal("hv", u.Field(i).Type(), st))
			case KRef:
				r.havocObject(st, fp, depth+1)
			}
		}
	case *types.Array:
		et := u.Elem()
		if k, srt := kindOf(et); isScalar(k) {
			key := r.elemKey(et)
			r.set(st, key, sStore(r.get(st, key), p.S, r.facts.Fresh("hvarr", "(Array Int "+srt+")")))
		}
	}
}

func (fr *Frame) havocHeap(st *State) { fr.havocHeapExcept(st, nil) }

// havocHeapExcept havocs the heap but keeps the contents of variable cells allocated by
// the function under verification whose address was not handed to the callee.
func (fr *Frame) havocHeapExcept(st *State, escaped map[string]bool) {
	r := fr.r
	keep := map[string][][2]string{}
	for _, c := range r.cells {
		if escaped[c.addr] {
			continue
		}
		keep[c.key] = append(keep[c.key], [2]string{c.addr, sSelect(r.get(st, c.key), c.addr)})
	}
	for _, k := range sortedKeys(r.memSort) {
		switch {
		case strings.HasPrefix(k, "F|"), strings.HasPrefix(k, "C|"), strings.HasPrefix(k, "E|"), strings.HasPrefix(k, "MD|"), strings.HasPrefix(k, "MV|"), strings.HasPrefix(k, "G|"):
			if r.eng.immutableKey(k) {
				continue
			}
			if strings.HasPrefix(k, "G|") && strings.Contains(k, ".") {
				pk := k[2:strings.Index(k, ".")]
				if pk != "grpcmux" && pk != "cmdrunner" && pk != "runner" && pk != "plugin" {
					continue // package-level variables of other packages (os.Stdout, io.EOF, ...) are written only explicitly
				}
			}
			r.havocKey(st, k)
			if ks := keep[k]; len(ks) > 0 {
				t := st.mem[k]
				for _, kv := range ks {
					t = sStore(t, kv[0], kv[1])
				}
				r.set(st, k, t)
			}
		}
	}
}

func escapedCells(args []Val, out map[string]bool) {
	for _, a := range args {
		if a.K == KPtr && a.P != nil && a.P.Kind == PCell {
			out[a.P.Base] = true
		}
		if a.K == KClosure {
			escapedCells(a.Bind, out)
		}
	}
}

func (fr *Frame) havocAll(st *State) {
	r := fr.r
	fr.havocHeap(st)
	for name := range r.eng.cs.Ghosts {
		r.havocKey(st, "g|"+name)
	}
}

// defaultCall: a callee with no contract that cannot be inlined. Result unconstrained;
// objects passed directly by pointer/slice are havoced (documented default frame).
func (fr *Frame) defaultCall(st *State, name string, callee *ssa.Function, sig *types.Signature, recv *Val, args []Val, c *ssa.CallCommon) Val {
	r := fr.r
	r.defaulted[name] = true
	{
		old := r.get(st, "g|$heap")
		r.havocKey(st, "g|$heap")
		r.facts.Assert(fmt.Sprintf("(>= %s %s)", st.mem["g|$heap"], old))
	}
	for i, a := range args {
		var at types.Type
		if i < len(c.Args) {
			at = c.Args[i].Type()
		}
		if at == nil {
			continue
		}
		a.T = at
		switch a.K {
		case KPtr:
			if pt, ok := at.Underlying().(*types.Pointer); ok {
				r.store(st, a, r.freshVal("hv", pt.Elem(), st))
			}
		case KRef:
			if pt, ok := at.Underlying().(*types.Pointer); ok && !isModuleType(pt.Elem()) {
				r.havocObject(st, a, 0)
			}
		case KSlice:
			et := at.Underlying().(*types.Slice).Elem()
			if k, srt := kindOf(et); isScalar(k) {
				key := r.elemKey(et)
				r.set(st, key, sStore(r.get(st, key), sApp("s_base", a.S), r.facts.Fresh("hvelems", "(Array Int "+srt+")")))
			}
		}
	}
	res := r.freshVal("res", sig.Results(), st)
	if sig.Results().Len() == 1 && res.K == KTuple {
		res = res.Fs[0]
	}
	return res
}

func (fr *Frame) builtin(st *State, ins ssa.Instruction, name string, c *ssa.CallCommon, args []Val, pos token.Pos) Val {
	r := fr.r
	switch name {
	case "len":
		x := args[0]
		switch x.K {
		case KSlice:
			return intVal(sApp("s_len", x.S))
		case KStr:
			return intVal(sApp("slen", x.S))
		case KRef:
			// map or chan length: uninterpreted non-negative
			r.facts.DeclareFun("objlen", []string{"Int", "Int"}, "Int")
			t := r.facts.Fresh("len", "Int")
			r.facts.Assert("(>= " + t + " 0)")
			return intVal(t)
		}
		return r.freshVal("len", types.Typ[types.Int], st)
	case "cap":
		x := args[0]
		if x.K == KSlice {
			return intVal(sApp("s_cap", x.S))
		}
		return r.freshVal("cap", types.Typ[types.Int], st)
	case "append":
		return fr.appendOp(st, c, args, pos)
	case "delete":
		m, k := args[0], args[1]
		fr.guardedMapAccess(st, c.Args[0], pos, "write")
		mt := c.Args[0].Type().Underlying().(*types.Map)
		if dk, _, _, _, ok := r.mapKeys(mt); ok && isScalar(k.K) {
			d := r.get(st, dk)
			// delete on nil map is a no-op
			nd := sStore(d, m.S, sStore(sSelect(d, m.S), k.S, "false"))
			r.set(st, dk, sIte(sEq(m.S, "0"), d, nd))
		}
		return Val{K: KTuple}
	case "close":
		ch := args[0]
		closed := r.get(st, "g|$closed")
		if tn, fld, ok := r.eng.onceProtectedClose(ins, c.Args[0]); ok {
			// close(x.f) inside the function literal handed to x.o.Do where the type contract of x
			// declares `once o: f`: executed at most once per object (sync.Once), and the module scan
			// checks that there is no other close site for this field
			r.assumes["sync.Once runs its function at most once ("+tn+"."+fld+" is closed only inside its Once)"] = true
			fr.nopanic(st, fr.anchorName(ins, "close")+"-nil", sNot(sEq(ch.S, "0")), pos, "close of nil channel "+fr.describe(c.Args[0]))
		} else {
			fr.r.require(st, "close-once", fr.oblFunc(), fr.oblName(fr.anchorName(ins, "close")), sAnd(sNot(sEq(ch.S, "0")), sNot(sSelect(closed, ch.S))), fr.closeTags(), pos, "close of nil or already-closed channel "+fr.describe(c.Args[0]))
		}
		r.set(st, "g|$closed", sStore(closed, ch.S, "true"))
		return Val{K: KTuple}
	case "panic":
		fr.nopanic(st, "panic", "false", pos, "explicit panic")
		st.pc = "false"
		return Val{K: KTuple}
	case "recover":
		if fr.contract != nil && fr.contract.Flags["recovers"] != nil {
			// a cleanup closure whose contract speaks about its panic path: the recovered value is
			// arbitrary (the enclosing function, or user code it calls, may have panicked)
			v := r.facts.Fresh("recovered", "Int")
			r.facts.Assert(fmt.Sprintf("(and (>= %s 0) (= (= %s 0) (= (itag %s) 0)))", v, v, v))
			return Val{K: KIface, S: v}
		}
		return Val{K: KIface, S: r.get(st, "g|$panicking")}
	case "copy":
		dst := args[0]
		if dst.K == KSlice {
			et := c.Args[0].Type().Underlying().(*types.Slice).Elem()
			if k, srt := kindOf(et); isScalar(k) {
				key := r.elemKey(et)
				r.set(st, key, sStore(r.get(st, key), sApp("s_base", dst.S), r.facts.Fresh("cpy", "(Array Int "+srt+")")))
			}
		}
		n := r.facts.Fresh("copied", "Int")
		r.facts.Assert("(>= " + n + " 0)")
		return intVal(n)
	case "print", "println":
		return Val{K: KTuple}
	case "min", "max":
		if len(args) == 2 && args[0].K == KInt {
			op := "<="
			if name == "max" {
				op = ">="
			}
			return intVal(fmt.Sprintf("(ite (%s %s %s) %s %s)", op, args[0].S, args[1].S, args[0].S, args[1].S))
		}
	}
	r.note("builtin " + name + " abstracted")
	return r.freshVal("bi", c.Signature().Results(), st)
}

func (fr *Frame) closeTags() []string {
	for p := fr; p != nil; p = p.parent {
		if p.contract != nil {
			if t, ok := p.contract.Flags["close_once"]; ok {
				return t
			}
		}
	}
	return fr.nopanicTags()
}

func (fr *Frame) appendOp(st *State, c *ssa.CallCommon, args []Val, pos token.Pos) Val {
	r := fr.r
	s, e := args[0], args[1]
	st0, ok := c.Args[0].Type().Underlying().(*types.Slice)
	if !ok {
		return r.freshVal("append", c.Signature().Results(), st)
	}
	et := st0.Elem()
	ek, esrt := kindOf(et)
	if e.K == KStr {
		// append([]byte, string...)
		res := r.freshVal("append", c.Args[0].Type(), st)
		r.assume(st, fmt.Sprintf("(= (s_len %s) (+ (s_len %s) (slen %s)))", res.S, s.S, e.S))
		return res
	}
	newlen := r.facts.Define("applen", "Int", fmt.Sprintf("(+ (s_len %s) (s_len %s))", s.S, e.S))
	reuse := r.facts.Define("appreuse", "Bool", fmt.Sprintf("(<= %s (s_cap %s))", newlen, s.S))
	a := r.alloc(st, "appbase")
	ncap := r.facts.Fresh("appcap", "Int")
	r.facts.Assert(fmt.Sprintf("(>= %s %s)", ncap, newlen))
	res := r.facts.Fresh("app", "Slice")
	r.facts.Assert(sEq(res, fmt.Sprintf("(ite %[1]s (mk_slice (s_base %[2]s) (s_off %[2]s) %[3]s (s_cap %[2]s)) (mk_slice %[4]s 0 %[3]s %[5]s))", reuse, s.S, newlen, a, ncap)))
	if !isScalar(ek) {
		r.note(fr.fname + ": append of non-scalar element type " + et.String() + ": contents abstracted")
		return Val{K: KSlice, S: res}
	}
	key := r.elemKey(et)
	E := r.get(st, key)
	sarr := r.facts.Define("apps", "(Array Int "+esrt+")", sSelect(E, sApp("s_base", s.S)))
	earr := r.facts.Define("appe", "(Array Int "+esrt+")", sSelect(E, sApp("s_base", e.S)))
	narr := r.facts.Fresh("appn", "(Array Int "+esrt+")")
	off := sApp("s_off", res)
	// old prefix preserved
	r.facts.Assert(fmt.Sprintf("(forall ((j Int)) (! (=> (and (<= 0 j) (< j (s_len %[1]s))) (= (select %[2]s (+ %[3]s j)) (select %[4]s (+ (s_off %[1]s) j)))) :pattern ((select %[2]s (+ %[3]s j)))))", s.S, narr, off, sarr))
	// appended elements
	if m := literalSlice.FindStringSubmatch(e.S); m != nil && len(m[3]) <= 2 {
		var n int
		fmt.Sscan(m[3], &n)
		for j := 0; j < n; j++ {
			r.facts.Assert(fmt.Sprintf("(= (select %s (+ %s (s_len %s) %d)) (select %s (+ (s_off %s) %d)))", narr, off, s.S, j, earr, e.S, j))
		}
	} else {
		r.facts.Assert(fmt.Sprintf("(forall ((j Int)) (! (=> (and (<= 0 j) (< j (s_len %[1]s))) (= (select %[2]s (+ %[3]s (s_len %[5]s) j)) (select %[4]s (+ (s_off %[1]s) j)))) :pattern ((select %[2]s (+ %[3]s (s_len %[5]s) j)))))", e.S, narr, off, earr, s.S))
	}
	if esrt == "Str" {
		// sequence view: the result's content is the old content followed by the appended elements
		r.facts.Assert(fmt.Sprintf("(= (seq_of_str %s %s %s) (seq_cat (seq_of_str %s (s_off %s) (s_len %s)) (seq_of_str %s (s_off %s) (s_len %s))))",
			narr, off, newlen, sarr, s.S, s.S, earr, e.S, e.S))
	}
	// reuse: everything outside the appended window unchanged
	r.facts.Assert(fmt.Sprintf("(=> %[1]s (forall ((i Int)) (! (=> (or (< i (+ (s_off %[2]s) (s_len %[2]s))) (>= i (+ (s_off %[2]s) %[3]s))) (= (select %[4]s i) (select %[5]s i))) :pattern ((select %[4]s i)))))", reuse, s.S, newlen, narr, sarr))
	r.set(st, key, sStore(E, sApp("s_base", res), narr))
	return Val{K: KSlice, S: res}
}

// spawn handles `go f(...)`.
// closedBySpawned: the channels (terms in the spawner's state) that the body of callee closes,
// where the channel is a parameter or a captured variable of callee.
func (fr *Frame) closedBySpawned(st *State, callee *ssa.Function, args, binds []Val) []string {
	r := fr.r
	var out []string
	for _, b := range callee.Blocks {
		for _, ins := range b.Instrs {
			var cc *ssa.CallCommon
			switch x := ins.(type) {
			case *ssa.Call:
				cc = &x.Call
			case *ssa.Defer:
				cc = &x.Call
			}
			if cc == nil || len(cc.Args) != 1 {
				continue
			}
			if bi, ok := cc.Value.(*ssa.Builtin); !ok || bi.Name() != "close" {
				continue
			}
			switch a := cc.Args[0].(type) {
			case *ssa.Parameter:
				for i, p := range callee.Params {
					if p == a && i < len(args) && args[i].S != "" {
						out = append(out, args[i].S)
					}
				}
			case *ssa.UnOp:
				if fv, ok := a.X.(*ssa.FreeVar); ok && a.Op == token.MUL {
					for i, f := range callee.FreeVars {
						if f == fv && i < len(binds) {
							bv := binds[i]
							bv.T = fv.Type()
							if lv := r.load(st, bv); lv.K != KInvalid && lv.S != "" {
								out = append(out, lv.S)
							}
						}
					}
				}
			}
		}
	}
	return out
}

func (fr *Frame) spawn(st *State, in *ssa.Go) {
	r := fr.r
	c := &in.Call
	name := r.calleeName(c)
	var args []Val
	for _, a := range c.Args {
		args = append(args, fr.val(st, a))
	}
	extra := map[string]Val{}
	for i, a := range args {
		extra[fmt.Sprintf("arg%d", i)] = a
	}
	if c.IsInvoke() {
		rv := fr.val(st, c.Value)
		rv.T = c.Value.Type()
		extra["recv"] = rv
	}
	var callee *ssa.Function
	var binds []Val
	switch v := c.Value.(type) {
	case *ssa.Function:
		callee = v
	case *ssa.MakeClosure:
		cv := fr.val(st, v)
		callee, binds = cv.Fn, cv.Bind
	}
	if callee != nil {
		// captured variables of the spawned closure, by name: cap_<name> is the variable's current value
		for i, fv := range callee.FreeVars {
			if i < len(binds) {
				b := binds[i]
				b.T = fv.Type()
				if lv := r.load(st, b); lv.K != KInvalid {
					extra["cap_"+fv.Name()] = lv
					// the name the contract was written with, if the captured variable was renamed
					for old, cur := range r.eng.aliasesFor(r.eng.funcName(callee), callee) {
						if cur == fv.Name() {
							extra["cap_"+old] = lv
						}
					}
				}
			}
		}
	}
	fr.atAnchors(st, in, false, extra)
	if callee != nil {
		name = r.eng.funcName(callee)
		// a channel the new goroutine closes (directly, or in a deferred call) may be closed at any
		// later point of this function: from here on a receive from it may fail to deliver a value
		// whatever this function itself knows about the channel
		for _, chv := range fr.closedBySpawned(st, callee, args, binds) {
			r.volChans = append(r.volChans, [2]string{st.pc, chv})
		}
	}
	r.spawned[name] = true
	fc := r.eng.cs.Funcs[name]
	if fc != nil && callee != nil && len(fc.Requires) > 0 {
		cf := &Frame{r: r, fn: callee, fname: name, inst: fr.inst, vals: map[ssa.Value]Val{}, names: map[string]Val{}}
		for i, p := range callee.Params {
			if i < len(args) {
				a := args[i]
				a.T = p.Type()
				cf.names[p.Name()] = a
			}
		}
		for i, fv := range callee.FreeVars {
			if i < len(binds) {
				cf.names["&"+fv.Name()] = binds[i]
				cf.vals[fv] = binds[i]
			}
		}
		cf.entry = st
		for i, rq := range fc.Requires {
			if hasTag(rq.Tags, "nospawn") {
				r.assumes["spawn precondition of "+name+" not checked at the go statement (global invariant / documented precondition): "+rq.Text] = true
				continue
			}
			cf.requireExpr(st, "spawn-pre", fr.oblFunc(), fr.oblName(fr.anchorName(in, "go")+":"+name+":"+rq.Label(fmt.Sprintf("#%d", i+1))), rq.Expr, nil, rq.Tags, in.Pos(), "spawn precondition of "+name+": "+rq.Text)
		}
	}
	if fc != nil && callee != nil && fc.Flags["spawn_inline"] != nil && fr.depth < maxInlineDepth {
		// the goroutine's body is checked here, in the lexical scope of the spawning function, on a
		// state where everything shared may have changed in the meantime and no lock is held
		sub := st.clone()
		fr.havocHeap(sub)
		r.set(sub, "g|$held", "((as const (Array Int Bool)) false)")
		cf := &Frame{r: r, fn: callee, fname: name, inst: fr.inst, vals: map[ssa.Value]Val{}, names: map[string]Val{}, parent: fr}
		for i, p := range callee.Params {
			if i < len(args) {
				a := args[i]
				a.T = p.Type()
				cf.names[p.Name()] = a
			}
		}
		for i, fv := range callee.FreeVars {
			if i < len(binds) {
				cf.names["&"+fv.Name()] = binds[i]
				cf.vals[fv] = binds[i]
			}
		}
		cf.entry = sub
		for _, rq := range fc.Requires {
			if v, err := cf.eval(sub, rq.Expr, nil); err == nil {
				r.assume(sub, v.S)
			} else {
				r.evalErrors = append(r.evalErrors, fmt.Sprintf("%s: requires %q: %v", name, rq.Text, err))
			}
		}
		r.inlined[name+" (at go statement)"] = true
		sf := r.newFrame(callee, fr)
		sf.spawned = true
		r.execFunc(sf, sub, args, binds)
	}
}

func hasTag(tags []string, t string) bool {
	for _, x := range tags {
		if x == t {
			return true
		}
	}
	return false
}

// runDefers executes registered defers in reverse static order, each guarded by its registration flag.
func (fr *Frame) runDefers(st *State) {
	r := fr.r
	for i := len(fr.defers) - 1; i >= 0; i-- {
		d := fr.defers[i]
		key := fmt.Sprintf("d|%s|%d", fr.inst, i)
		if _, ok := r.memSort[key]; !ok {
			continue
		}
		reg := r.get(st, key)
		if reg == "false" {
			continue
		}
		sub := st.clone()
		sub.pc = r.facts.Define("pc", "Bool", sAnd(st.pc, reg))
		// values of the defer's operands may be undefined on paths where it is not registered: fine, guarded
		fr.call(sub, d, &d.Call, d.Pos(), "defer")
		if reg == "true" {
			sub.mem[key] = "false"
			*st = *sub
			continue
		}
		skip := st.clone()
		skip.pc = r.facts.Define("pc", "Bool", sAnd(st.pc, sNot(reg)))
		m := r.mergeStates([]*State{sub, skip})
		m.mem[key] = "false"
		*st = *m
	}
}

// ---------------------------------------------------------------------------
// Frame obligations: a function with a `modifies` clause changes nothing else
// in objects that existed at entry.

type frameDecl struct {
	key   string
	idx   string
	whole bool
}

func (fr *Frame) frameDecls(entry *State) (decls []frameDecl, skipHeap bool) {
	r := fr.r
	addObj := func(p Val) {}
	var addObjRec func(p Val, depth int)
	addObjRec = func(p Val, depth int) {
		pt, ok := p.T.Underlying().(*types.Pointer)
		if !ok || depth > 3 {
			return
		}
		switch u := pt.Elem().Underlying().(type) {
		case *types.Struct:
			sk := structKey(p.T)
			for i := 0; i < u.NumFields(); i++ {
				fp := r.fieldPtr(p, i)
				switch fp.K {
				case KPtr:
					decls = append(decls, frameDecl{key: "F|" + sk + "|" + u.Field(i).Name(), idx: p.S})
				case KRef:
					addObjRec(fp, depth+1)
				}
			}
		case *types.Array:
			if k, _ := kindOf(u.Elem()); isScalar(k) {
				decls = append(decls, frameDecl{key: r.elemKey(u.Elem()), idx: p.S})
			}
		}
	}
	_ = addObj
	for _, m := range fr.contract.Modifies {
		e := m.Expr
		if e.Op == "id" {
			if _, ok := r.eng.cs.Ghosts[e.Name]; ok {
				decls = append(decls, frameDecl{key: "g|" + e.Name, whole: true})
				continue
			}
			if e.Name == "everything" || e.Name == "heap" {
				skipHeap = true
				continue
			}
			if e.Name == "heap_fresh" {
				continue
			}
		}
		if e.Op == "call" {
			switch e.Name {
			case "elems":
				x, err := fr.eval(entry, e.Args[0], nil)
				if err == nil && x.K == KSlice && x.T != nil {
					et := x.T.Underlying().(*types.Slice).Elem()
					if k, _ := kindOf(et); isScalar(k) {
						decls = append(decls, frameDecl{key: r.elemKey(et), idx: sApp("s_base", x.S)})
					}
				}
				continue
			case "fields":
				x, err := fr.eval(entry, e.Args[0], nil)
				if err == nil && x.K == KRef && x.T != nil {
					addObjRec(x, 0)
				}
				continue
			case "mapof":
				x, err := fr.eval(entry, e.Args[0], nil)
				if err == nil && x.T != nil {
					if mt, ok := x.T.Underlying().(*types.Map); ok {
						if dk, vk, _, _, ok := r.mapKeys(mt); ok {
							decls = append(decls, frameDecl{key: dk, idx: x.S}, frameDecl{key: vk, idx: x.S})
						}
					}
				}
				continue
			}
		}
		ev := &evaluator{fr: fr, r: r, st: entry, old: entry, bound: map[string]Val{}, pkg: fr.fn.Pkg}
		var p Val
		ok := true
		func() {
			defer func() {
				if x := recover(); x != nil {
					if _, is := x.(evalErr); is {
						ok = false
						return
					}
					panic(x)
				}
			}()
			p = ev.place(e)
		}()
		if !ok {
			continue
		}
		switch {
		case p.K == KRef:
			addObjRec(p, 0)
		case p.K == KPtr && p.P != nil:
			switch p.P.Kind {
			case PField:
				decls = append(decls, frameDecl{key: "F|" + p.P.Struct + "|" + p.P.Field, idx: p.P.Base})
			case PCell:
				decls = append(decls, frameDecl{key: r.cellKey(p.P.Elem), idx: p.P.Base})
			case PElem:
				decls = append(decls, frameDecl{key: r.elemKey(p.P.Elem), idx: p.P.Base})
			case PGlobal:
				decls = append(decls, frameDecl{key: "G|" + shortPkgDot(p.P.Global.Pkg.Pkg.Path()) + p.P.Global.Name(), whole: true})
			}
		case p.K == KPtr && p.S != "":
			et := p.T.Underlying().(*types.Pointer).Elem()
			if k, _ := kindOf(et); isScalar(k) {
				decls = append(decls, frameDecl{key: r.cellKey(et), idx: p.S})
			}
		}
	}
	return
}

func (fr *Frame) checkFrame(st *State, ret *ssa.Return) {
	r := fr.r
	if fr.contract == nil || !fr.contract.HasModifies {
		return
	}
	for _, m := range fr.contract.Modifies {
		if m.Expr.Op == "id" && m.Expr.Name == "everything" {
			return // the function declares no frame at all
		}
	}
	decls, skipHeap := fr.frameDecls(fr.entry)
	// designators are also read in the final state: a guarded variable may have been replaced by
	// another goroutine before this function acquired its lock (interference is not this function's write)
	d2, _ := fr.frameDecls(st)
	decls = append(decls, d2...)
	entry := fr.entry
	h0 := r.get(entry, "g|$heap")
	var tags []string
	for _, m := range fr.contract.Modifies {
		tags = append(tags, m.Tags...)
	}
	for _, k := range sortedKeys(st.mem) {
		if strings.HasPrefix(k, "B:") {
			continue
		}
		now := st.mem[k]
		was := r.get(st, "B:"+k)
		if now == was {
			continue
		}
		if k == "g|emits" || k == "g|last_level" || k == "g|last_msg" || k == "g|last_args" {
			continue // what a function logs is pinned down by explicit clauses (C10), not by frames: adding a log line is not a frame violation
		}
		if strings.HasPrefix(k, "d|") || strings.HasPrefix(k, "it|") || k == "g|$heap" || k == "g|$panicking" || k == "g|$held" || k == "g|$closed" || k == "g|$recvd" {
			continue
		}
		if strings.HasPrefix(k, "g|") && r.eng.cs.LocalGhost[k[2:]] {
			continue
		}
		heapKey := !strings.HasPrefix(k, "g|")
		if heapKey && skipHeap {
			continue
		}
		var idxs []string
		whole := false
		for _, d := range decls {
			if d.key == k {
				if d.whole {
					whole = true
				} else {
					idxs = append(idxs, d.idx)
				}
			}
		}
		if whole {
			continue
		}
		var goal string
		if strings.HasPrefix(k, "G|") || strings.HasPrefix(k, "g|") && !strings.HasPrefix(r.keySort(k), "(Array Int") {
			goal = sEq(now, was)
		} else if strings.HasPrefix(k, "g|") {
			goal = sEq(now, was)
			if len(idxs) > 0 {
				goal = ""
			}
		}
		if goal == "" {
			p := r.facts.Fresh("framep", "Int")
			conds := []string{fmt.Sprintf("(<= (root %s) %s)", p, h0)}
			for _, ix := range idxs {
				conds = append(conds, sNot(sEq(p, ix)))
			}
			goal = sImp(sAnd(conds...), sEq(sSelect(now, p), sSelect(was, p)))
		}
		r.require(st, "frame", fr.fname, fmt.Sprintf("%s@%s", keyPrefix(k), fr.anchorName(ret, "return")), goal, tags, ret.Pos(),
			"only the declared locations of "+k+" change in pre-existing objects")
	}
}

// maybeCall: the callee may or may not invoke the closure passed as argument (sync.Once.Do).
func (fr *Frame) maybeCall(st *State, fnv Val, always bool) {
	r := fr.r
	if fnv.K != KClosure && fnv.Fn == nil {
		fr.havocHeap(st)
		return
	}
	callee, binds := fnv.Fn, fnv.Bind
	if len(callee.Blocks) == 0 || fr.depth >= maxInlineDepth {
		fr.havocHeap(st)
		return
	}
	run := st.clone()
	var b string
	if !always {
		b = r.facts.Fresh("maybe", "Bool")
		run.pc = r.facts.Define("pc", "Bool", sAnd(st.pc, b))
	}
	sub := r.newFrame(callee, fr)
	r.inlined[sub.fname] = true
	out := r.execFunc(sub, run, nil, binds)
	if always {
		*st = *out.st
		return
	}
	skip := st.clone()
	skip.pc = r.facts.Define("pc", "Bool", sAnd(st.pc, sNot(b)))
	*st = *r.mergeStates([]*State{out.st, skip})
}
