#!/usr/bin/env python3
"""Regenerates section 13 ("As built") of /verif/DESIGN.md from the current state of /verif."""
import json, glob, os, re, subprocess

def sh(c): return subprocess.run(c, shell=True, capture_output=True, text=True).stdout.strip()

seeds = []
for f in sorted(glob.glob('/verif/seeded/*/confirmed.json')):
    d = json.load(open(f)); m = {}
    try: m = json.load(open(os.path.dirname(f) + '/meta.json'))
    except Exception: pass
    seeds.append((d, m))
n_seeds = len(seeds)
n_first_missed = sum(1 for d, _ in seeds if d['note'].startswith('first run'))
rows = []
for d, m in seeds:
    ob = d['violations'][0]['obligation'] if d['violations'] else ''
    rows.append("| %s | %s | `%s` | %s |" % (d['seed'], m.get('title', '').replace('|', '/')[:110], ob.replace('|', '/')[:90], d['note'].replace('|', '/')))
n_mut = len(glob.glob('/verif/selftest/mutants/*.patch'))
n_harm = len(glob.glob('/verif/selftest/harmless/*.patch'))
n_harm_upd = len(glob.glob('/verif/selftest/harmless-needs-contract-update/*.patch'))
kf = json.load(open('/verif/known_findings.json'))
n_fixed = len(kf['fixed']); findings = [f['what'].split(':')[0] for f in kf['findings']]
n_fix_commits = int(sh("git -C /repo log --oneline | grep -c ' fix: '") or 0)
n_lines = int(sh("cat /repo/verif_contracts.go /repo/internal/*/verif_contracts.go | grep -c '^//@'") or 0)
n_funcs = int(sh("cat /repo/verif_contracts.go /repo/internal/*/verif_contracts.go | grep -c '^//@ func'") or 0)
n_types = int(sh("cat /repo/verif_contracts.go /repo/internal/*/verif_contracts.go | grep -c '^//@ type'") or 0)
n_ext = int(sh("cat /verif/contracts/*.spec | grep -c '^extern'") or 0)
tot_obl = 0; walls = []
for f in glob.glob('/verif/evidence/C*.json'):
    try:
        e = json.load(open(f)); tot_obl += e['coverage']['obligations']; walls.append(e['wall_s'])
    except Exception: pass

text = open('/verif/tools/asbuilt_template.md').read()
text = (text.replace('@@SEEDTABLE@@', "\n".join(rows)).replace('@@NSEEDS@@', str(n_seeds)).replace('@@NFIRSTMISSED@@', str(n_first_missed))
        .replace('@@NMUT@@', str(n_mut)).replace('@@NHARM@@', str(n_harm)).replace('@@NHARMUPD@@', str(n_harm_upd))
        .replace('@@NFIXED@@', str(n_fixed)).replace('@@FINDINGS@@', ", ".join(findings) or "none").replace('@@NFIXCOMMITS@@', str(n_fix_commits))
        .replace('@@NLINES@@', str(n_lines)).replace('@@NFUNCS@@', str(n_funcs)).replace('@@NTYPES@@', str(n_types)).replace('@@NEXT@@', str(n_ext))
        .replace('@@TOTOBL@@', str(tot_obl)).replace('@@WALLMIN@@', "%.0f" % (min(walls) if walls else 0)).replace('@@WALLMAX@@', "%.0f" % (max(walls) if walls else 0)))
s = open('/verif/DESIGN.md').read()
marker = '\n\n---------------------------------------------------------------------------------------\n\n## 13. As built'
if marker in s:
    s = s[:s.index(marker)]
s = s.rstrip('\n') + '\n\n---------------------------------------------------------------------------------------\n\n' + text
open('/verif/DESIGN.md', 'w').write(s)
print("section 13 regenerated:", n_seeds, "seeds,", n_mut, "mutants,", n_harm, "harmless")
