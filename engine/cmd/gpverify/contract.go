package main

// Contract files: Gobra-style structured comments (//@ ...) in build-tagged,
// comment-only Go files inside /repo, and plain .spec files in /verif/contracts
// for assumed contracts of functions outside the module.

import (
	"fmt"
	"os"
	"path/filepath"
	"regexp"
	"sort"
	"strconv"
	"strings"
)

type Clause struct {
	Expr *Expr
	Text string
	Tags []string
	File string
	Line int
}

func (c Clause) Label(def string) string {
	if len(c.Tags) > 0 {
		return c.Tags[0]
	}
	return def
}

type AtClause struct {
	Anchor string // e.g. "call strings.Split#1", "select#1", "go#2", "return#1"
	After  bool
	Kind   string // assert | assume | bind
	Name   string // bind name
	Sort   string // declared sort of a bind (needed when the name is used on paths that bypass the anchor)
	Clause
}

type FuncContract struct {
	Name     string
	Extern   bool
	File     string
	Line     int
	Requires []Clause
	Ensures  []Clause
	Entry    []struct {
		Name string
		Clause
	}
	Modifies    []Clause
	HasModifies bool
	Locals      []struct {
		Name string
		Clause
	}
	LoopInv     map[int][]Clause
	LoopFrame   map[int]bool
	Ats         []AtClause
	Flags       map[string][]string // flag -> tags / args (nopanic, trusted, fresh_result, may_panic, pure, ...)
	Props       map[string]bool     // properties this function is listed under (from tags)
}

type TypeContract struct {
	Name      string
	GuardedBy map[string][]string // lock field -> fields
	Immutable []string
	Atomic    []string
	Inv       []Clause
	Rely      map[string][]Clause // two-state invariants per lock: what other critical sections may do
	Flags     map[string][]string
	Tags      []string
}

type SpecFun struct {
	Name string
	Args []string
	Ret  string
}

type Lemma struct {
	Name string
	Vars map[string]string
	Hyps []Clause
	Goal Clause
	Tags []string
}

type PredDef struct {
	Params []string
	Body   *Expr
}

type Contracts struct {
	Preds  map[string]*PredDef
	Funcs  map[string]*FuncContract
	Types  map[string]*TypeContract
	Specs  map[string]*SpecFun
	Ghosts map[string]string // name -> sort spec
	LocalGhost map[string]bool
	Defines    map[string]string
	ChanInv    map[string][]Clause // channel type -> invariant over (ch, elem)
	Axioms []Clause
	Lemmas []*Lemma
	Sources []string
}

func newContracts() *Contracts {
	return &Contracts{Preds: map[string]*PredDef{}, Funcs: map[string]*FuncContract{}, Types: map[string]*TypeContract{}, Specs: map[string]*SpecFun{}, Ghosts: map[string]string{}, LocalGhost: map[string]bool{}, Defines: map[string]string{}, ChanInv: map[string][]Clause{}}
}

var tagRe = regexp.MustCompile(`\s*\[(C\d{2,3}(?:\.[A-Za-z0-9_\-']+)?|nospawn|trusted|internal)\]\s*$`)

func splitTags(s string) (string, []string) {
	var tags []string
	for {
		m := tagRe.FindStringSubmatchIndex(s)
		if m == nil {
			break
		}
		tags = append([]string{s[m[2]:m[3]]}, tags...)
		s = s[:m[0]]
	}
	return strings.TrimSpace(s), tags
}

func (cs *Contracts) LoadDir(dir string) error {
	ents, err := os.ReadDir(dir)
	if err != nil {
		return err
	}
	var names []string
	for _, e := range ents {
		if strings.HasSuffix(e.Name(), ".spec") {
			names = append(names, e.Name())
		}
	}
	sort.Strings(names)
	for _, n := range names {
		if err := cs.LoadFile(filepath.Join(dir, n), false); err != nil {
			return err
		}
	}
	return nil
}

func (cs *Contracts) LoadFile(path string, goFile bool) error {
	data, err := os.ReadFile(path)
	if err != nil {
		return err
	}
	cs.Sources = append(cs.Sources, path)
	var lines []struct {
		text string
		no   int
	}
	for i, l := range strings.Split(string(data), "\n") {
		if goFile {
			t := strings.TrimSpace(l)
			if !strings.HasPrefix(t, "//@") {
				continue
			}
			l = strings.TrimPrefix(t, "//@")
		}
		if j := strings.Index(l, " //"); j >= 0 && !strings.Contains(l[j:], "\"") {
			l = l[:j]
		}
		t := strings.TrimSpace(l)
		if t == "" || strings.HasPrefix(t, "#") {
			continue
		}
		if strings.HasPrefix(t, "..") && len(lines) > 0 {
			lines[len(lines)-1].text += " " + strings.TrimSpace(t[2:])
			continue
		}
		lines = append(lines, struct {
			text string
			no   int
		}{t, i + 1})
	}
	var cur *FuncContract
	var curT *TypeContract
	var curL int = -1
	mk := func(text string, no int) (Clause, error) {
		body, tags := splitTags(text)
		e, err := parseExpr(body)
		if err != nil {
			return Clause{}, fmt.Errorf("%s:%d: %v", path, no, err)
		}
		return Clause{Expr: e, Text: body, Tags: tags, File: path, Line: no}, nil
	}
	for _, ln := range lines {
		t := ln.text
		for name, val := range cs.Defines {
			if strings.Contains(t, "$"+name) {
				t = strings.ReplaceAll(t, "$"+name, val)
			}
		}
		if strings.HasPrefix(t, "define ") {
			f := strings.SplitN(strings.TrimSpace(t[7:]), " ", 2)
			if len(f) == 2 {
				cs.Defines[f[0]] = strings.TrimSpace(f[1])
			}
			continue
		}
		word, rest := t, ""
		if i := strings.IndexAny(t, " \t"); i >= 0 {
			word, rest = t[:i], strings.TrimSpace(t[i+1:])
		}
		switch {
		case word == "func" || word == "extern":
			name, _ := splitTags(rest)
			if _, dup := cs.Funcs[name]; dup {
				return fmt.Errorf("%s:%d: duplicate contract for %s", path, ln.no, name)
			}
			cur = &FuncContract{Name: name, Extern: word == "extern", File: path, Line: ln.no, LoopInv: map[int][]Clause{}, Flags: map[string][]string{}, Props: map[string]bool{}}
			cs.Funcs[name] = cur
			curT = nil
			curL = -1
			continue
		case word == "type":
			curT = &TypeContract{Name: rest, GuardedBy: map[string][]string{}, Flags: map[string][]string{}}
			cs.Types[rest] = curT
			cur = nil
			continue
		case word == "spec":
			// spec name(Sort, Sort) Sort
			m := regexp.MustCompile(`^([A-Za-z_][A-Za-z0-9_]*)\s*\(([^)]*)\)\s*(.+)$`).FindStringSubmatch(rest)
			if m == nil {
				return fmt.Errorf("%s:%d: bad spec declaration", path, ln.no)
			}
			var args []string
			for _, a := range strings.Split(m[2], ",") {
				a = strings.TrimSpace(a)
				if a != "" {
					args = append(args, a)
				}
			}
			cs.Specs[m[1]] = &SpecFun{Name: m[1], Args: args, Ret: strings.TrimSpace(m[3])}
			continue
		case word == "pred":
			m := regexp.MustCompile(`^([A-Za-z_][A-Za-z0-9_]*)\s*\(([^)]*)\)\s*:=\s*(.+)$`).FindStringSubmatch(rest)
			if m == nil {
				return fmt.Errorf("%s:%d: bad pred declaration", path, ln.no)
			}
			var ps []string
			for _, a := range strings.Split(m[2], ",") {
				if a = strings.TrimSpace(a); a != "" {
					ps = append(ps, a)
				}
			}
			body, err := parseExpr(m[3])
			if err != nil {
				return fmt.Errorf("%s:%d: %v", path, ln.no, err)
			}
			cs.Preds[m[1]] = &PredDef{Params: ps, Body: body}
			continue
		case word == "chaninv":
			// chaninv <channel type>: expr over ch, elem
			i := strings.Index(rest, ":")
			if i < 0 {
				return fmt.Errorf("%s:%d: bad chaninv (chaninv <chan type>: expr)", path, ln.no)
			}
			c, err := mk(rest[i+1:], ln.no)
			if err != nil {
				return err
			}
			cs.ChanInv[strings.TrimSpace(rest[:i])] = append(cs.ChanInv[strings.TrimSpace(rest[:i])], c)
			continue
		case word == "ghost":
			i := strings.Index(rest, ":")
			if i < 0 {
				return fmt.Errorf("%s:%d: bad ghost declaration", path, ln.no)
			}
			cs.Ghosts[strings.TrimSpace(rest[:i])] = strings.TrimSpace(rest[i+1:])
			continue
		case word == "axiom":
			c, err := mk(rest, ln.no)
			if err != nil {
				return err
			}
			cs.Axioms = append(cs.Axioms, c)
			continue
		case word == "lemma":
			name, tags := splitTags(rest)
			cs.Lemmas = append(cs.Lemmas, &Lemma{Name: name, Tags: tags, Vars: map[string]string{}})
			cur, curT = nil, nil
			curL = len(cs.Lemmas) - 1
			continue
		}
		if curL >= 0 && cur == nil && curT == nil && word == "var" {
			i := strings.Index(rest, ":")
			if i < 0 {
				return fmt.Errorf("%s:%d: bad var", path, ln.no)
			}
			for _, n := range strings.Split(rest[:i], ",") {
				cs.Lemmas[curL].Vars[strings.TrimSpace(n)] = strings.TrimSpace(rest[i+1:])
			}
			continue
		}
		if curL >= 0 && cur == nil && curT == nil {
			c, err := mk(rest, ln.no)
			if err != nil {
				return err
			}
			switch word {
			case "assume":
				cs.Lemmas[curL].Hyps = append(cs.Lemmas[curL].Hyps, c)
			case "prove":
				cs.Lemmas[curL].Goal = c
			default:
				return fmt.Errorf("%s:%d: unknown lemma clause %q", path, ln.no, word)
			}
			continue
		}
		if curT != nil {
			switch word {
			case "guarded_by":
				i := strings.Index(rest, ":")
				if i < 0 {
					return fmt.Errorf("%s:%d: bad guarded_by", path, ln.no)
				}
				lock := strings.TrimSpace(rest[:i])
				body, tags := splitTags(rest[i+1:])
				curT.Tags = append(curT.Tags, tags...)
				for _, f := range strings.Split(body, ",") {
					curT.GuardedBy[lock] = append(curT.GuardedBy[lock], strings.TrimSpace(f))
				}
			case "inv":
				c, err := mk(rest, ln.no)
				if err != nil {
					return err
				}
				curT.Inv = append(curT.Inv, c)
			case "rely":
				i := strings.Index(rest, ":")
				if i < 0 {
					return fmt.Errorf("%s:%d: bad rely (rely <lock>: expr)", path, ln.no)
				}
				c, err := mk(rest[i+1:], ln.no)
				if err != nil {
					return err
				}
				if curT.Rely == nil {
					curT.Rely = map[string][]Clause{}
				}
				lk := strings.TrimSpace(rest[:i])
				curT.Rely[lk] = append(curT.Rely[lk], c)
			default:
				body, tags := splitTags(rest)
				curT.Tags = append(curT.Tags, tags...)
				var xs []string
				for _, f := range strings.Split(body, ",") {
					if f = strings.TrimSpace(f); f != "" {
						xs = append(xs, f)
					}
				}
				curT.Flags[word] = append(curT.Flags[word], xs...)
			}
			continue
		}
		if cur == nil {
			return fmt.Errorf("%s:%d: clause outside a block: %s", path, ln.no, t)
		}
		switch {
		case word == "requires":
			c, err := mk(rest, ln.no)
			if err != nil {
				return err
			}
			cur.Requires = append(cur.Requires, c)
		case word == "ensures":
			c, err := mk(rest, ln.no)
			if err != nil {
				return err
			}
			cur.Ensures = append(cur.Ensures, c)
		case word == "entry":
			i := strings.Index(rest, ":=")
			if i < 0 {
				return fmt.Errorf("%s:%d: bad entry clause", path, ln.no)
			}
			c, err := mk(rest[i+2:], ln.no)
			if err != nil {
				return err
			}
			cur.Entry = append(cur.Entry, struct {
				Name string
				Clause
			}{strings.TrimSpace(rest[:i]), c})
		case word == "local":
			i := strings.Index(rest, ":=")
			j := strings.Index(rest, ":")
			if i < 0 || j < 0 || j >= i {
				return fmt.Errorf("%s:%d: bad local clause (local name: Sort := expr)", path, ln.no)
			}
			name := strings.TrimSpace(rest[:j])
			cs.Ghosts[name] = strings.TrimSpace(rest[j+1 : i])
			cs.LocalGhost[name] = true
			c, err := mk(rest[i+2:], ln.no)
			if err != nil {
				return err
			}
			cur.Locals = append(cur.Locals, struct {
				Name string
				Clause
			}{name, c})
		case word == "modifies":
			cur.HasModifies = true
			body, tags := splitTags(rest)
			for _, part := range splitTop(body, ',') {
				part = strings.TrimSpace(part)
				if part == "" || part == "nothing" {
					continue
				}
				c, err := mk(part, ln.no)
				if err != nil {
					return err
				}
				c.Tags = tags
				cur.Modifies = append(cur.Modifies, c)
			}
		case strings.HasPrefix(word, "loop#"):
			n, err := strconv.Atoi(word[5:])
			if err != nil {
				return fmt.Errorf("%s:%d: bad loop ordinal", path, ln.no)
			}
			if strings.HasPrefix(rest, "frame") {
				if cur.LoopFrame == nil {
					cur.LoopFrame = map[int]bool{}
				}
				cur.LoopFrame[n] = true
				continue
			}
			rest = strings.TrimSpace(strings.TrimPrefix(rest, "invariant"))
			c, err := mk(rest, ln.no)
			if err != nil {
				return err
			}
			cur.LoopInv[n] = append(cur.LoopInv[n], c)
		case word == "at" || word == "after":
			// at <anchor> (assert|assume|bind) ...
			idx := -1
			kind := ""
			for _, k := range []string{" assert ", " assume ", " bind ", " set "} {
				if i := strings.Index(rest, k); i >= 0 && (idx < 0 || i < idx) {
					idx, kind = i, strings.TrimSpace(k)
				}
			}
			if idx < 0 {
				return fmt.Errorf("%s:%d: at-clause needs assert/assume/bind/set", path, ln.no)
			}
			ac := AtClause{Anchor: strings.TrimSpace(rest[:idx]), After: word == "after", Kind: kind}
			body := strings.TrimSpace(rest[idx+len(kind)+1:])
			if kind == "bind" || kind == "set" {
				i := strings.Index(body, ":=")
				if i < 0 {
					return fmt.Errorf("%s:%d: bad bind", path, ln.no)
				}
				ac.Name = strings.TrimSpace(body[:i])
				if j := strings.Index(ac.Name, ":"); j >= 0 {
					ac.Sort = strings.TrimSpace(ac.Name[j+1:])
					ac.Name = strings.TrimSpace(ac.Name[:j])
				}
				body = body[i+2:]
			}
			c, err := mk(body, ln.no)
			if err != nil {
				return err
			}
			ac.Clause = c
			cur.Ats = append(cur.Ats, ac)
		default:
			body, tags := splitTags(rest)
			if body != "" {
				cur.Flags[word] = append(cur.Flags[word], body)
			}
			cur.Flags[word] = append(cur.Flags[word], tags...)
			if len(cur.Flags[word]) == 0 {
				cur.Flags[word] = []string{}
			}
		}
	}
	return nil
}

func splitTop(s string, sep byte) []string {
	var out []string
	d := 0
	last := 0
	for i := 0; i < len(s); i++ {
		switch s[i] {
		case '(', '[':
			d++
		case ')', ']':
			d--
		case sep:
			if d == 0 {
				out = append(out, s[last:i])
				last = i + 1
			}
		}
	}
	out = append(out, s[last:])
	return out
}

// propOf extracts the property id from a tag like "C01.a".
func propOf(tag string) string {
	if i := strings.Index(tag, "."); i >= 0 {
		return tag[:i]
	}
	return tag
}

func (fc *FuncContract) computeProps() {
	add := func(tags []string) {
		for _, t := range tags {
			if strings.HasPrefix(t, "C") {
				fc.Props[propOf(t)] = true
			}
		}
	}
	for _, c := range fc.Requires {
		add(c.Tags)
	}
	for _, c := range fc.Ensures {
		add(c.Tags)
	}
	for _, cs := range fc.LoopInv {
		for _, c := range cs {
			add(c.Tags)
		}
	}
	for _, c := range fc.Ats {
		add(c.Tags)
	}
	for _, c := range fc.Modifies {
		add(c.Tags)
	}
	for _, ts := range fc.Flags {
		add(ts)
	}
}
