package main

import (
	"runtime/pprof"
	"encoding/json"
	"flag"
	"fmt"
	"os"
	"path/filepath"
	"runtime"
	"sort"
	"strconv"
	"strings"
	"time"
)

var verifDir = "/verif"
var repoDir = "/repo"

func main() {
	if len(os.Args) < 2 {
		fmt.Fprintln(os.Stderr, "usage: gpverify <check|verify|list|lemma> ...")
		os.Exit(2)
	}
	if v := os.Getenv("GPV_VERIF"); v != "" {
		verifDir = v
	}
	if v := os.Getenv("GPV_REPO"); v != "" {
		repoDir = v
	}
	// packages.Load shells out to `go`: /repo needs go >= 1.24, so put go1.26.8 first.
	os.Setenv("PATH", "/opt/veriftools/go1.26.8/bin:"+os.Getenv("PATH"))
	os.Setenv("GOTOOLCHAIN", "local")
	os.Setenv("GOFLAGS", "-mod=mod")
	os.Setenv("GOPROXY", "off")
	switch os.Args[1] {
	case "verify":
		cmdVerify(os.Args[2:])
	case "check":
		cmdCheck(os.Args[2:])
	case "list":
		cmdList(os.Args[2:])
	case "anchors":
		cmdAnchors(os.Args[2:])
	case "ground":
		cmdGround(os.Args[2:])
	case "replay":
		cmdReplay(os.Args[2:])
	case "names":
		e, err := loadEngine(repoDir, verifDir)
		if err != nil {
			fmt.Fprintln(os.Stderr, err)
			os.Exit(2)
		}
		data, _ := json.MarshalIndent(e.allDeclNames(), "", " ")
		fmt.Println(string(data))
	default:
		fmt.Fprintln(os.Stderr, "unknown command", os.Args[1])
		os.Exit(2)
	}
}

func cmdList(args []string) {
	e, err := loadEngine(repoDir, verifDir)
	if err != nil {
		fmt.Fprintln(os.Stderr, err)
		os.Exit(2)
	}
	if len(args) == 2 && args[0] == "-p" {
		// the functions the property's check examines
		fns := e.funcsForProp(args[1])
		sort.Strings(fns)
		for _, n := range fns {
			fmt.Println(n)
		}
		return
	}
	var names []string
	for n := range e.funcs {
		names = append(names, n)
	}
	sort.Strings(names)
	for _, n := range names {
		mark := " "
		if fc := e.cs.Funcs[n]; fc != nil {
			mark = "*"
		}
		fmt.Printf("%s %s\n", mark, n)
	}
}

func cmdVerify(args []string) {
	fs := flag.NewFlagSet("verify", flag.ExitOnError)
	fn := fs.String("f", "", "function short name")
	timeout := fs.Int("t", 10, "solver timeout (s)")
	verbose := fs.Bool("v", false, "verbose")
	keep := fs.Bool("keep", false, "keep smt files")
	fs.Parse(args)
	e, err := loadEngine(repoDir, verifDir)
	if err != nil {
		fmt.Fprintln(os.Stderr, err)
		os.Exit(2)
	}
	var frs []*FuncResult
	for _, name := range strings.Split(*fn, ",") {
		fr, err := e.verifyFunc(name)
		if err != nil {
			fmt.Fprintln(os.Stderr, err)
			os.Exit(2)
		}
		frs = append(frs, fr)
	}
	work := filepath.Join(verifDir, ".work", "verify")
	os.RemoveAll(work)
	solveAll(work, frs, *timeout, runtime.NumCPU())
	bad := 0
	for _, fr := range frs {
		fmt.Printf("== %s: %d obligations, gen %.2fs, %d facts\n", fr.Name, len(fr.Obls), fr.GenTime, len(fr.Facts))
		for _, n := range fr.Notes {
			fmt.Println("  note:", n)
		}
		for _, n := range fr.EvalErrs {
			fmt.Println("  CONTRACT ERROR:", n)
		}
		if *verbose {
			fmt.Println("  inlined:", fr.Inlined)
			fmt.Println("  specs:", fr.Specs)
			fmt.Println("  defaulted:", fr.Default)
		}
		for _, o := range fr.Obls {
			ok := o.ok()
			if !ok {
				bad++
			}
			if *verbose || !ok {
				st := "ok  "
				if !ok {
					st = "FAIL"
				}
				fmt.Printf("  %s %-8s %s [%s] %s %.2fs %s -- %s\n", st, o.Result.Status, o.Name, strings.Join(o.Tags, ","), o.Pos, o.Result.Time, o.File, o.Text)
			}
		}
	}
	if !*keep && bad == 0 {
		os.RemoveAll(work)
	}
	if bad > 0 {
		os.Exit(1)
	}
}

// ---------------------------------------------------------------------------

type KnownFinding struct {
	Property   string `json:"property"`
	Obligation string `json:"obligation"` // exact obligation name, or prefix ending in '*'
	Region     string `json:"region,omitempty"` // contract expression over the function's entry state delimiting the failing inputs
	What       string `json:"what"`
	regionExpr *Expr
}

type KnownFile struct {
	Findings []KnownFinding `json:"findings"`
	Fixed    []string       `json:"fixed"`
}

func loadKnown() KnownFile {
	var kf KnownFile
	data, err := os.ReadFile(filepath.Join(verifDir, "known_findings.json"))
	if err == nil {
		json.Unmarshal(data, &kf)
	}
	return kf
}

func matchKnown(kf KnownFile, prop, obl string) *KnownFinding {
	obl = strings.TrimSuffix(obl, "!finding")
	for i, f := range kf.Findings {
		if prop != "" && f.Property != prop {
			continue
		}
		if f.Obligation == obl {
			return &kf.Findings[i]
		}
		if strings.HasSuffix(f.Obligation, "*") && strings.HasPrefix(obl, strings.TrimSuffix(f.Obligation, "*")) {
			return &kf.Findings[i]
		}
	}
	return nil
}

func cmdCheck(args []string) {
	if pf := os.Getenv("GPV_PROF"); pf != "" {
		f, _ := os.Create(pf)
		pprof.StartCPUProfile(f)
		defer pprof.StopCPUProfile()
	}
	fs := flag.NewFlagSet("check", flag.ExitOnError)
	prop := fs.String("p", "", "property id")
	tier := fs.String("tier", "quick", "quick|thorough")
	scratch := fs.String("scratch", "", "scratch output directory: evidence, replays and work files go there (used by the self-test on mutated copies)")
	fs.Parse(args)
	if t := os.Getenv("VERIF_TIER"); t != "" && *tier == "" {
		*tier = t
	}
	seed := 0
	if s := os.Getenv("VERIF_SEED"); s != "" {
		seed, _ = strconv.Atoi(s)
	}
	t0 := time.Now()
	timeout := 10
	if *tier == "thorough" {
		timeout = 60
	}
	outDir := verifDir
	if *scratch != "" {
		outDir = *scratch
	}
	evPath := filepath.Join(outDir, "evidence", *prop+".json")
	os.MkdirAll(filepath.Dir(evPath), 0o755)
	os.Remove(evPath)
	e, err := loadEngine(repoDir, verifDir)
	if err != nil {
		fmt.Printf("UNDECIDED property=%s reason=%q\n", *prop, err.Error())
		os.Exit(2)
	}
	names := e.funcsForProp(*prop)
	if len(names) == 0 {
		fmt.Printf("UNDECIDED property=%s reason=\"no contracts carry this property\"\n", *prop)
		os.Exit(2)
	}
	var frs []*FuncResult
	var toolErrs []string
	var staleClosures []string
	done := map[string]bool{}
	for i := 0; i < len(names); i++ {
		n := names[i]
		if done[n] {
			continue
		}
		done[n] = true
		fr, err := e.verifyFunc(n)
		if err != nil {
			if i := strings.Index(n, "$"); i > 0 && e.funcs[n] == nil && e.funcs[n[:i]] != nil {
				// a function literal the contract file annotates no longer exists although its enclosing
				// function does (the literal was moved or merged): there is nothing of that name to verify;
				// the code that replaced it is verified where it is called or inlined
				staleClosures = append(staleClosures, n)
				continue
			}
			toolErrs = append(toolErrs, err.Error())
			continue
		}
		toolErrs = append(toolErrs, fr.EvalErrs...)
		frs = append(frs, fr)
		// module callees used through their contracts are verified too (modularity needs both halves)
		for _, s := range fr.Specs {
			if fc := e.cs.Funcs[s]; fc != nil && !fc.Extern && !done[s] && e.funcs[s] != nil && fc.Flags["trusted"] == nil {
				names = append(names, s)
			}
		}
	}
	// Every obligation of the examined functions is discharged, whatever property its clause is
	// tagged with: an obligation is assumed by everything generated after it in the same function,
	// so a clause of another property that no longer holds would otherwise be relied upon silently.
	// (Tags select which functions a property's check examines, not which of their obligations count.)
	work := filepath.Join(outDir, ".work", *prop)
	os.RemoveAll(work)
	solveAll(work, frs, timeout, runtime.NumCPU())
	lemmas := e.checkLemmas(*prop, work, timeout)
	for _, o := range e.moduleScan() {
		if hasProp(o.Tags, *prop) {
			lemmas = append(lemmas, o)
		}
	}

	var xConfirmed, xInconclusive int
	var sens []sensResult
	if *tier == "thorough" {
		var dis []string
		xConfirmed, xInconclusive, dis = crossCheck(frs, runtime.NumCPU())
		for _, d := range dis {
			toolErrs = append(toolErrs, "solver disagreement: "+d)
		}
		if *scratch == "" {
			sens = sensitivity(*prop)
		}
	}
	kf := loadKnown()
	total, discharged, violations := 0, 0, 0
	bySolver := map[string]int{}
	solverTime := 0.0
	var samples []map[string]interface{}
	var knownLines []string
	var fnames []string
	assume := map[string]bool{}
	specs := map[string]bool{}
	notes := map[string]bool{}
	replayDir := filepath.Join(outDir, "replays", *prop)
	for _, fr := range frs {
		fnames = append(fnames, fr.Name)
		for _, a := range fr.Assumes {
			assume[a] = true
		}
		for _, s := range fr.Specs {
			specs[s] = true
		}
		for _, n := range fr.Notes {
			notes[n] = true
		}
		for _, d := range fr.Default {
			assume["callee without contract, default frame (result unconstrained; only objects passed directly are modified): "+d] = true
		}
		for _, o := range fr.Obls {
			if strings.HasSuffix(o.Name, "!finding") {
				solverTime += o.Result.Time
				if !o.ok() {
					if k := matchKnown(kf, *prop, o.Name); k != nil {
						knownLines = append(knownLines, fmt.Sprintf("KNOWN-FINDING: property=%s %s", *prop, k.What))
					}
				}
				continue
			}
			total++
			solverTime += o.Result.Time
			if o.ok() {
				discharged++
				bySolver[o.Result.Solver]++
				if len(samples) < 6 && o.Kind != "vacuity" && o.Result.Solver != "trivial" {
					samples = append(samples, map[string]interface{}{"obligation": o.Name, "kind": o.Kind, "tags": o.Tags, "pos": o.Pos, "text": o.Text, "solver": o.Result.Solver, "time_s": o.Result.Time, "status": o.Result.Status})
				}
				continue
			}
			if k := matchKnown(kf, *prop, o.Name); k != nil && k.Region == "" {
				knownLines = append(knownLines, fmt.Sprintf("KNOWN-FINDING: property=%s %s", *prop, k.What))
				total--
				continue
			}
			violations++
			path := writeReplay(replayDir, *prop, fr, o)
			suffix := " no-failing-input-found"
			var ro *replayOutcome
			if os.Getenv("GPV_NO_REPLAY") == "" {
				ro = tryReplay(repoDir, filepath.Join(work, "replay"), fr, o)
			}
			if ro != nil {
				addReplayOutcome(path, ro)
				if ro.Confirmed {
					suffix = ""
				}
			}
			fmt.Printf("VIOLATION property=%s replay=%s obligation=%q status=%s%s\n", *prop, path, o.Name, o.Result.Status, suffix)
		}
	}
	for _, l := range lemmas {
		total++
		solverTime += l.Result.Time
		if l.ok() {
			discharged++
			bySolver[l.Result.Solver]++
			continue
		}
		violations++
		path := writeReplay(replayDir, *prop, &FuncResult{Name: "lemma"}, l)
		fmt.Printf("VIOLATION property=%s replay=%s obligation=%q status=%s no-failing-input-found\n", *prop, path, l.Name, l.Result.Status)
	}
	sort.Strings(knownLines)
	seen := map[string]bool{}
	for _, l := range knownLines {
		if !seen[l] {
			fmt.Println(l)
			seen[l] = true
		}
	}
	if len(toolErrs) > 0 {
		for _, te := range toolErrs {
			fmt.Printf("UNDECIDED property=%s reason=%q\n", *prop, te)
		}
	}
	trusted := []string{
		"the VC generator gpverify itself (go/ssa semantics, memory model, loop cutting, defer encoding)",
		"go/types + go/ssa front end (x/tools v0.50.0)", "SMT solvers z3 5.1.0, z3 4.8.12, cvc5 1.0.3",
	}
	for _, s := range sortedKeys(specs) {
		if fc := e.cs.Funcs[s]; fc != nil && fc.Extern {
			trusted = append(trusted, "assumed contract (extern): "+s)
		} else {
			trusted = append(trusted, "callee contract used modularly (verified separately under its own properties): "+s)
		}
	}
	for _, a := range sortedKeys(assume) {
		trusted = append(trusted, a)
	}
	for _, sc := range staleClosures {
		trusted = append(trusted, "contract of a function literal that no longer exists was skipped: "+sc)
	}
	ev := map[string]interface{}{
		"property_id": *prop, "tier": *tier, "seed": seed, "level": "proof",
		"coverage": map[string]interface{}{
			"obligations": total, "discharged": discharged,
			"checker_cmd":              fmt.Sprintf("/verif/bin/gpverify check -p %s -tier %s", *prop, *tier),
			"trusted_base":             trusted,
			"samples":                  samples,
			"functions_under_contract": fnames,
			"by_solver":                bySolver,
			"solver_time_s":            solverTime,
			"abstracted":               sortedKeys(notes),
			"known_findings":           knownLines,
			"tool_errors":              toolErrs,
			"thorough_second_solver":   map[string]int{"confirmed": xConfirmed, "inconclusive": xInconclusive},
			"thorough_sensitivity":     sens,
		},
		"assumptions": sortedKeys(assume),
		"wall_s":      time.Since(t0).Seconds(),
		"violations":  violations,
	}
	data, _ := json.MarshalIndent(ev, "", " ")
	os.WriteFile(evPath, data, 0o644)
	fmt.Printf("property=%s functions=%d obligations=%d discharged=%d violations=%d known=%d wall=%.1fs\n", *prop, len(frs), total, discharged, violations, len(seen), time.Since(t0).Seconds())
	if violations > 0 {
		os.Exit(1)
	}
	if len(toolErrs) > 0 || total == 0 {
		os.Exit(2)
	}
	os.RemoveAll(work)
}

// addReplayOutcome records the generated test, the model values it was built from and its output.
func addReplayOutcome(path string, ro *replayOutcome) {
	data, err := os.ReadFile(path)
	if err != nil {
		return
	}
	rec := map[string]interface{}{}
	if json.Unmarshal(data, &rec) != nil {
		return
	}
	rec["replay_confirmed_on_real_code"] = ro.Confirmed
	rec["replay_model_values"] = ro.Values
	rec["replay_test_source"] = ro.Test
	rec["replay_test_output"] = ro.Output
	if ro.Note != "" {
		rec["replay_note"] = ro.Note
	}
	out, _ := json.MarshalIndent(rec, "", " ")
	os.WriteFile(path, out, 0o644)
}

func writeReplay(dir, prop string, fr *FuncResult, o *Obligation) string {
	os.MkdirAll(dir, 0o755)
	name := strings.NewReplacer("/", "_", " ", "_", "(", "", ")", "", "*", "", "#", "-", ":", "_", "$", "_", "@", "_at_", "~", "_").Replace(o.Name)
	path := filepath.Join(dir, name+".json")
	model := ""
	if o.Result != nil {
		model = o.Result.Model
	}
	candidate := false
	if model == "" && o.Candidate != "" {
		model = o.Candidate
		candidate = true
	}
	named := map[string]string{}
	if model != "" {
		vals := parseModel(model)
		for disp, sym := range fr.RunNames {
			if v, ok := vals[sym]; ok {
				named[disp] = v
			}
		}
	}
	rec := map[string]interface{}{
		"property": prop, "obligation": o.Name, "kind": o.Kind, "function": o.Func, "position": o.Pos, "text": o.Text, "tags": o.Tags,
		"status": o.Result.Status, "solver": o.Result.Solver, "solver_output": clipStr(o.Result.Output, 20000), "model_named_inputs": named, "model_is_candidate_from_quantifier_free_weakening": candidate, "smt_file": o.File,
	}
	data, _ := json.MarshalIndent(rec, "", " ")
	os.WriteFile(path, data, 0o644)
	return path
}

func clipStr(s string, n int) string {
	if len(s) > n {
		return s[:n] + "...[truncated]"
	}
	return s
}

// parseModel extracts (define-fun name () Sort value) entries.
func parseModel(m string) map[string]string {
	out := map[string]string{}
	lines := strings.Split(m, "\n")
	for i := 0; i < len(lines); i++ {
		l := strings.TrimSpace(lines[i])
		if !strings.HasPrefix(l, "(define-fun ") {
			continue
		}
		rest := l[len("(define-fun "):]
		var name string
		if strings.HasPrefix(rest, "|") {
			j := strings.Index(rest[1:], "|")
			if j < 0 {
				continue
			}
			name = rest[:j+2]
			rest = rest[j+2:]
		} else {
			j := strings.IndexByte(rest, ' ')
			if j < 0 {
				continue
			}
			name = rest[:j]
			rest = rest[j:]
		}
		rest = strings.TrimSpace(rest)
		if !strings.HasPrefix(rest, "()") {
			continue
		}
		val := ""
		// value may be on the same or the next line
		k := strings.Index(rest, ")")
		tail := strings.TrimSpace(rest[k+1:])
		parts := strings.SplitN(tail, " ", 2)
		if len(parts) == 2 && strings.TrimSpace(parts[1]) != "" {
			val = strings.TrimSuffix(strings.TrimSpace(parts[1]), ")")
		} else if i+1 < len(lines) {
			val = strings.TrimSuffix(strings.TrimSpace(lines[i+1]), ")")
		}
		out[name] = val
	}
	return out
}

func cmdAnchors(args []string) {
	e, err := loadEngine(repoDir, verifDir)
	if err != nil {
		fmt.Fprintln(os.Stderr, err)
		os.Exit(2)
	}
	for _, name := range args {
		fn := e.funcs[name]
		if fn == nil {
			fmt.Println("no such function", name)
			continue
		}
		r := newRun(e, fn)
		fr := r.newFrame(fn, nil)
		type rec struct {
			pos string
			a   []string
		}
		var recs []rec
		for _, b := range fn.Blocks {
			for _, in := range b.Instrs {
				if a := fr.anchors[in]; len(a) > 0 {
					recs = append(recs, rec{e.pos(in.Pos()), a})
				}
			}
		}
		sort.Slice(recs, func(i, j int) bool { return recs[i].pos < recs[j].pos })
		fmt.Println("==", name)
		for _, rc := range recs {
			fmt.Printf("  %-18s %s\n", rc.pos, strings.Join(rc.a, " | "))
		}
		for h, n := range fr.loopOrd {
			fmt.Printf("  loop#%d at block %d (%s) %s\n", n, h.Index, h.Comment, e.pos(h.Instrs[0].Pos()))
		}
	}
}

// cmdGround: debugging aid, rebuilds the ground query of a kept .smt2 file.
func cmdGround(args []string) {
	data, err := os.ReadFile(args[0])
	if err != nil {
		fmt.Println(err)
		os.Exit(2)
	}
	var lines []string
	for _, l := range strings.Split(string(data), "\n") {
		if strings.HasPrefix(l, "(assert") || strings.HasPrefix(l, "(declare-fun") {
			lines = append(lines, l)
		}
	}
	n := len(lines)
	pc := strings.TrimSuffix(strings.TrimPrefix(lines[n-2], "(assert "), ")")
	goal := strings.TrimSuffix(strings.TrimPrefix(lines[n-1], "(assert (not "), "))")
	debugGround = true
	out, cnt := groundQuery(lines[:n-2], pc, goal, 5)
	fmt.Println("instances:", cnt, "lines:", len(out))
}

// cmdReplay re-runs the recorded counterexample of a violation file against the tree under
// verification: exit 1 if the real code still fails the property's oracle, 0 if it passes,
// 2 if the file carries no executable replay (the obligation and the solver's output are printed).
func cmdReplay(args []string) {
	if len(args) < 1 {
		fmt.Fprintln(os.Stderr, "usage: gpverify replay <replay.json>")
		os.Exit(2)
	}
	data, err := os.ReadFile(args[0])
	if err != nil {
		fmt.Fprintln(os.Stderr, err)
		os.Exit(2)
	}
	rec := map[string]interface{}{}
	if err := json.Unmarshal(data, &rec); err != nil {
		fmt.Fprintln(os.Stderr, err)
		os.Exit(2)
	}
	fmt.Printf("property=%v obligation=%v\nposition=%v\nclause: %v\nsolver: %v status=%v\n", rec["property"], rec["obligation"], rec["position"], rec["text"], rec["solver"], rec["status"])
	src, _ := rec["replay_test_source"].(string)
	if src == "" {
		fmt.Println("no executable replay for this obligation (no-failing-input-found); named model values:")
		if m, ok := rec["model_named_inputs"].(map[string]interface{}); ok {
			for k, v := range m {
				fmt.Printf("  %s = %v\n", k, v)
			}
		}
		os.Exit(2)
	}
	work, _ := os.MkdirTemp("", "gpvreplay")
	defer os.RemoveAll(work)
	out, bad := runReplayTest(repoDir, work, src)
	fmt.Println(out)
	if bad {
		fmt.Printf("VIOLATION property=%v replay=%s\n", rec["property"], args[0])
		os.Exit(1)
	}
	fmt.Println("the recorded input no longer fails on this tree")
}
