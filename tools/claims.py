claim("C01",
 "Postconditions of (*Client).Start, transcribed from the property (error or dialable address; success implies every field check; reported protocol/version/address equal the line's; no panic for any line or configuration; the wait is a select with the start-timeout case), are discharged for all handshake lines and all client configurations.",
 "Assumed contracts for strings/strconv/net/x509/base64 parsers and user-supplied runner methods; the numeric value of the timeout is not verified, only its presence as an alternative of the wait; integer arithmetic mathematical.",
 "DESIGN.md section 7 C01")
claim("C04",
 "Contract of (*Client).Kill (nothing to do => no effect; otherwise graceful-and-done or runner.Kill called, management goroutines awaited, socket directory removed; graceful exit is not force-killed) and of CleanupClients (every managed client gets a Kill, all awaited, lock released before waiting) discharged for all states; every wait on Kill's path needs a bounding alternative.",
 "Actual reaping by the kernel and the 2 s grace value are not decided. Fixed defect D3: the shutdown request in Kill is now bounded by a 2 s timer. WaitGroup wait justified by listed signallers (trusted).",
 "DESIGN.md section 7 C04")
claim("C05",
 "For every path of (*Client).Start after a successful runner.Start: an error return implies runner.Kill was called (deferred cleanup reads the named result), the runner is recorded in the client before launch, and Kill with no address force-kills.",
 "That runner.Kill / SIGKILL actually terminates the process is assumed; panics of user callbacks are not modelled as flows.",
 "DESIGN.md section 7 C05")
claim("C13",
 "(*SecureConfig).Check returns true iff the digest of the file equals the checksum (length-sensitive), with the dedicated errors; in Start the check dominates every launch site and a failed or erroring check launches nothing.",
 "Assumed contracts for os.Open, io.Copy, hash.Hash.Sum, subtle.ConstantTimeCompare; the hash function is uninterpreted.",
 "DESIGN.md section 7 C13")
claim("C14",
 "Start-time cells decided by go-plugin's own sequential code: option exclusivity, SecureConfig/multiplexing with Reattach, allowed-protocol filter, multiplexing capability with the dedicated error, unknown protocol in Client(); no panic on any of these paths.",
 "Positive end-to-end cells and first-use TLS mismatches need execution of the matrix and are not decided by contracts (DESIGN.md section 9).",
 "DESIGN.md section 7 C14")
claim("C15",
 "ReattachConfig/reattach round trip (address, protocol), default reattach function fails with ErrProcessNotFound iff the probe dial fails and closes the probe connection, non-test reattach records the runner (so Kill kills it), test-mode reattach leaves the runner unset (Kill is a no-op).",
 "Liveness of the real process and state visibility across reattach are not decided; Serve's test-mode paths are covered under C16 when claimed.",
 "DESIGN.md section 7 C15")
claim("C19",
 "Object invariant of Client (at most one launch per client, address stable once set, cached protocol client stable) assumed at every lock acquisition and proved at every release in every method; rely/guarantee clauses make it hold under any interleaving; Start/Client/Kill/Protocol/ReattachConfig/ID/Exited contracts discharged.",
 "Known finding D12: with a RunnerFunc a Start after a failed Start launches again (region recorded in known_findings.json; outside that region the invariant is proved). Immutability of config fields is checked by an SSA scan of the whole module.",
 "DESIGN.md section 7 C19")
claim("C02",
 "protocolVersion returns max(S∩H) when the sets intersect, else min(S), else the legacy values, with the plugin set registered under the returned version (S = served versions after legacy folding, H = successfully parsed entries of PLUGIN_PROTOCOL_VERSIONS), proved with loop invariants over the unspecified map iteration order; the client accepts exactly offered versions (checkProtoVersion) and adopts the set registered under the announced one.",
 "sort.Sort(sort.Reverse(sort.IntSlice)) is specified as an in-place non-increasing permutation (assumed); strings.Split/strconv.Atoi assumed; run-time use of the negotiated set by net/rpc or gRPC is not decided.",
 "DESIGN.md section 7 C02")
claim("C10",
 "parseJSON and flattenKVPairs are total and functionally specified (hclog keys moved only when strings, the remaining keys enumerated once each with their values); logStderr's per-line contract (verbatim copy then newline placement, continuation flag, exactly one log record per line at the level given by hclog JSON / [LEVEL] prefix / panic mode, kv arguments) is a loop invariant proved for every ReadLine result; the stderr and stdout reader goroutines return only when their stream is finished or broken and always signal their wait groups.",
 "bufio.Reader.ReadLine, bufio.Scanner, encoding/json, hclog are assumed contracts; 'unchanged' is relative to ReadLine's notion of a line. Fixed defects D7 (unchecked type assertions) and D8 (stdout no longer drained after a scanner error).",
 "DESIGN.md section 7 C10")
claim("C06",
 "Lock and channel invariants of MuxBroker: every pending slot stored under key k has ghost key k and its channel only ever carries connections whose first wire word is k; Accept(id) returns only such a connection and acks id; Dial(id) writes id and accepts only ack id; the net/rpc dispenser serves the implementation it created on the id it returned and the client dials the id it was given; NextId is a single atomic increment (distinct for fewer than 2^32 calls). A pure SMT lemma joins both ends.",
 "yamux stream pairing and FIFO delivery are assumed (lemma hypothesis); 'both succeed inside the ~5 s window' is timing and not decided. Documented precondition: one outstanding Accept per id.",
 "DESIGN.md section 7 C06")
claim("C07",
 "Non-multiplexed GRPCBroker: Accept(id) announces a ConnInfo carrying id and the (translated) address of the listener it created in this call and returns that listener; Run files every non-knock message under its ServiceId (channel invariant); DialWithOptions(id) consumes only ConnInfo with ServiceId id and dials exactly the (translated, resolved) address it carries, with TLS iff the broker has a config; AcceptAndServe serves on the accepted listener and closes it; both streamer implementations hand messages over unchanged.",
 "gRPC transport, ordering of the broker stream and the ~5 s timing window are not decided; custom runners' address translation is assumed to be inverse (identity proved for cmdrunner).",
 "DESIGN.md section 7 C07")
claim("C08",
 "Multiplexed broker: per-function routing contracts of GRPCBroker (knock, listenForKnocks, muxDial holding dialMutex from knock to Dial), GRPCServerMuxer (a connection accepted while a knock for id is queued goes to the channel registered under id; the 'no listener' branch that tears down the main server is unreachable when knocks are only acknowledged for registered ids) and GRPCClientMuxer; spawn precondition: the knock listener starts only after the id's listener is registered (fixed defect D4).",
 "Sequential establishment is a documented precondition; yamux FIFO of Open/Accept and schedules of concurrent establishments are not decided.",
 "DESIGN.md section 7 C08")
claim("C09",
 "No blocking operation while a broker lock is held (noblock-locked obligations on every channel operation and blocking call), locks balanced on every exit, every broker wait has a timer / quit / connection-bound justification, every inbound stream is parked, handed over or closed (ownership counter), Close closes quit/done channels once. Fixed defects D5 and D6.",
 "Wall-clock values and select fairness are not decided; connection-bound waits are accepted in mode peer-dead (pending I/O fails when the peer dies).",
 "DESIGN.md section 7 C09")
claim("C11",
 "gRPC path: copyChan sends exactly the bytes of each Read (length n, n>0, a buffer allocated after the previous send, never the whole array) on its own channel; newGRPCStdioServer/GRPCServer.Init/Serve wire the stdout pipe reader to stdoutCh and the stderr pipe reader to stderrCh; StreamStdio tags data from stdoutCh STDOUT and stderrCh STDERR and sends that chunk; grpcStdioClient.Run writes STDOUT chunks to the first and STDERR chunks to the second writer, which newGRPCClient binds to SyncStdout/SyncStderr. net/rpc path: both ends open/accept the stdio streams as yamux stream ordinals 1 and 2 after control (loop invariants), the server copies s.Stdout into ordinal 1 and s.Stderr into ordinal 2, the client copies ordinal 1 into SyncStdout and 2 into SyncStderr. Serve installs as os.Stdout/os.Stderr the write ends of the pipes whose read ends the server was given.",
 "Assumed: bufio.Reader.Read, io.Copy, os.Pipe, io.TeeReader, yamux in-order pairing of Open/Accept, gRPC stream ordering, Go channels are FIFO. Exactly-once, in-order delivery is the composition of these per-hop contracts with the assumed FIFO transports; it is not proved as a whole-history theorem. Data written before the host attaches relies on pipe/channel back-pressure (assumed).",
 "DESIGN.md section 7 C11")
claim("C12",
 "Configuration-level proof that every connection path uses the one-time certificates: Serve builds (when PLUGIN_CLIENT_CERT is set and no TLSProvider) a tls.Config with ClientAuth=RequireAndVerifyClientCert, ClientCAs = a pool holding exactly the PEM from the environment, MinVersion>=TLS1.2, and gives that same config to the net/rpc listener wrapper or to GRPCServer.TLS; GRPCServer.Init passes exactly grpc.Creds(NewTLS(s.TLS)) and the same config to the plugin-side broker; host: Start exports the generated certificate (not the key) and requires client verification, loadServerCert pins a fresh pool containing exactly the decoded handshake certificate as RootCAs and ClientCAs and fails without a TLS config; newRPCClient/newGRPCClient/dialGRPCConn/GRPCBroker dial and AcceptAndServe use that config and never fall back to plaintext when it is set.",
 "crypto/tls, x509 and gRPC credential enforcement are assumed (that a config with RequireAndVerifyClientCert and a one-certificate pool refuses every other peer is the library's contract). When AutoMTLS is on and the plugin returns no certificate field the host keeps RootCAs=nil (system roots, ServerName localhost): recorded as an assumption, not decided.",
 "DESIGN.md section 7 C12")
claim("C16",
 "Serve: on every path with a missing/empty/wrong cookie the only effects are a message on stderr and os.Exit(1) (no listener, no stdout write, no file); protocolVersion and everything after it are dominated by the cookie check; the handshake line is the single stdout write, printed with format \"%d|%d|%s|%s|%s|%s\" and six arguments (core version, negotiated version, listener network, listener address, protocol, certificate), a seventh \"|%v\" exactly when PLUGIN_MULTIPLEX_GRPC is non-empty, after the listener exists and Init succeeded, before os.Stdout is replaced by the pipe; an SSA scan shows no other function of the module can write to the process's stdout.",
 "Assumed: fmt, os.Getenv, net.Listen (a returned listener accepts connections), hclog writes only to its configured Output (stderr). User plugin code is outside the frame.",
 "DESIGN.md section 7 C16")
claim("C18",
 "Listener accounting with a ghost counter: every listener created by serverListener_unix/_tcp is wrapped so that Close removes the socket file; every error path after creation closes it (fixed D11a, D11b); Serve closes its listener on every return, the gRPC server multiplexer closes the listener it wraps (fixed D10); GRPCBroker.Accept/AcceptAndServe return or close every listener they create; GRPCServer.Stop/GracefulStop close the broker; Kill waits for the client's goroutines and removes the runner's socket directory.",
 "Goroutine termination a few seconds later is a liveness/whole-history statement: only its ingredients are decided (every management goroutine has a bounded wait and signals its WaitGroup: C04/C09/C10). File removal by os.Remove/os.RemoveAll is assumed.",
 "DESIGN.md section 7 C18")
claim("C20",
 "Lock discipline as proof obligations: every read/write of a field declared guarded_by happens with its mutex held (Client, MuxBroker, GRPCBroker, GRPCServer.broker after fixed D13, grpcmux muxers, managedClients), immutable fields are written only in constructors (SSA scan of the module), counters are touched only through sync/atomic, every close of a channel is under a sync.Once or a nil-guard under lock (close-once obligations), no send on a closed channel, locks balanced on all paths, and no panic obligations on the concurrent entry points. NextId is one atomic increment.",
 "The Go memory model and sync primitives are assumed; data races inside dependencies (yamux, gRPC, net/rpc) and in user plugin code are out of scope; fields not listed in a guarded_by/immutable clause are not checked (listed per type in the contract files).",
 "DESIGN.md section 7 C20")
claim("C03",
 "Ingredients of crash-to-error: the wait goroutine sets exited and cancels doneCtx on every path; Start returns an error whenever its select ends by exit/timeout or the line channel closes; every blocking operation on the host paths (Start, Client, Dispense, Ping, broker Accept/Dial/knock, stdio client) has a bounding alternative (timer, doneCtx) or is I/O on the plugin connection (accepted in mode peer-dead); no panic obligations on all these functions for arbitrary plugin output; doneCtx is what newGRPCClient hands to GRPCPlugin.GRPCClient and the stdio stream.",
 "Mode peer-dead assumes pending I/O on a connection to a dead process fails (kernel, yamux keepalive, gRPC). Calls made through user-generated gRPC stubs are not under contract. Fixed defect D3 (C04) was the one unbounded call found: Kill -> ClientProtocol.Close.",
 "DESIGN.md section 7 C03")
claim("C17",
 "At both launch sites of Start (cmdrunner.NewCmdRunner, ClientConfig.RunnerFunc) the command's environment, viewed as a sequence whose effective value per key is its last entry, satisfies: cookie key -> cookie value, PLUGIN_MIN_PORT/MAX_PORT rendered from the config, PLUGIN_PROTOCOL_VERSIONS = the join of exactly the registered versions (loop invariant over the map iteration), PLUGIN_MULTIPLEX_GRPC=true when multiplexing is requested, PLUGIN_CLIENT_CERT = the generated certificate when AutoMTLS, socket group when configured, socket directory = the directory just created for a custom runner; PLUGIN_CLIENT_CERT and PLUGIN_MULTIPLEX_GRPC are otherwise exactly as in the configured Cmd.Env, independent of the host environment (fixed defect D9, hostEnv proved to filter them); with SkipHostEnv every key comes from Cmd.Env or is one of the control variables; cmd.Stdin is os.Stdin.",
 "Assumed: os/exec keeps the last duplicate, fmt.Sprintf renders %s of a string as the string, the key of an entry is the text before '='; precondition recorded in the clauses: the magic cookie key is not one of go-plugin's own variable names. PLUGIN_UNIX_SOCKET_DIR / PLUGIN_UNIX_SOCKET_GROUP present in the host environment are inherited when the client configures none and SkipHostEnv is off: documented plugin-side variables (CHANGELOG GH-270), treated as by design, so their host-independence is proved under SkipHostEnv only.",
 "DESIGN.md section 7 C17")
