package main

import (
	"fmt"
	"go/types"
	"sort"
	"strings"
)

// State is the symbolic state at a program point. pc is the path condition.
// mem maps memory/ghost keys to SMT terms; a key that is absent has the
// run-wide initial term for that key (created lazily by Run.initial).
type State struct {
	pc     string
	mem    map[string]string
	locals map[string]Val  // non-escaping allocs (engine-side registers)
	reg    map[string]bool // defer instruction registered? represented as term in mem under "d|..." instead
}

func newState() *State {
	return &State{pc: "true", mem: map[string]string{}, locals: map[string]Val{}}
}

func (s *State) clone() *State {
	n := &State{pc: s.pc, mem: make(map[string]string, len(s.mem)), locals: make(map[string]Val, len(s.locals))}
	for k, v := range s.mem {
		n.mem[k] = v
	}
	for k, v := range s.locals {
		n.locals[k] = v
	}
	return n
}

// Key naming:
//   F|<struct>|<field>   Array Int <sort>          field of struct objects
//   C|<type>             Array Int <sort>          standalone cells of pointee type
//   E|<type>             Array Int (Array Int s)   element arrays
//   MD|<maptype>         Array Int (Array K Bool)  map domains
//   MV|<maptype>         Array Int (Array K V)     map values
//   G|<pkg.var>          <sort>                    package-level variable (scalar)
//   g|<name>             ghost
//   d|<inst>|<n>         Bool                      defer n of instance registered

func (r *Run) keySort(key string) string {
	if s, ok := r.memSort[key]; ok {
		return s
	}
	panic("unknown memory key sort: " + key)
}

func (r *Run) declKey(key, srt string) {
	if old, ok := r.memSort[key]; ok {
		if old != srt {
			panic(fmt.Sprintf("memory key %s: sort %s vs %s", key, old, srt))
		}
		return
	}
	r.memSort[key] = srt
}

// initial returns the entry-state term for a key.
func (r *Run) initial(key string) string {
	if t, ok := r.mem0[key]; ok {
		return t
	}
	srt := r.keySort(key)
	var t string
	switch {
	case strings.HasPrefix(key, "d|"):
		t = "false"
	default:
		t = r.facts.Const(sym(key+"@0"), srt)
	}
	r.mem0[key] = t
	return t
}

func (r *Run) get(st *State, key string) string {
	if t, ok := st.mem[key]; ok {
		return t
	}
	if strings.HasPrefix(key, "B:") {
		return r.initial(key[2:])
	}
	return r.initial(key)
}

// baseline: "B:"+key tracks the entry value of key updated by interference (what other
// goroutines may have done while a lock was not held); frame obligations compare against it.
func (r *Run) baseStore(st *State, key, idx, val string) {
	bk := "B:" + key
	r.declKey(bk, r.keySort(key))
	st.mem[bk] = r.facts.Define("base", r.keySort(key), sStore(r.get(st, bk), idx, val))
}

func (r *Run) set(st *State, key, term string) {
	st.mem[key] = r.facts.Define(keyPrefix(key), r.keySort(key), term)
}

type storeRec struct{ arr, idx, val string }

// setStore records arr' = store(arr, idx, val) so that later reads at a syntactically
// identical (or provably different) index can be simplified when the term is built.
func (r *Run) setStore(st *State, key, arr, idx, val string) {
	n := r.facts.Fresh(keyPrefix(key), r.keySort(key))
	r.facts.Assert(sEq(n, sStore(arr, idx, val)))
	r.stores[n] = storeRec{arr, idx, val}
	st.mem[key] = n
}

// readArr builds select(arr, idx), looking through recorded stores.
func (r *Run) readArr(arr, idx string) string {
	for i := 0; i < 64; i++ {
		sr, ok := r.stores[arr]
		if !ok {
			break
		}
		if sr.idx == idx {
			return sr.val
		}
		if r.distinctRefs(sr.idx, idx) {
			arr = sr.arr
			continue
		}
		break
	}
	return sSelect(arr, idx)
}

// distinctRefs: two different allocation constants are different references.
func (r *Run) distinctRefs(a, b string) bool {
	return a != b && r.allocs[a] && r.allocs[b]
}

func keyPrefix(key string) string {
	k := strings.NewReplacer("|", "_", " ", "", "*", "p", "[", "", "]", "", "(", "", ")", "", "{", "", "}", "", ",", "_", "/", "_").Replace(key)
	if len(k) > 40 {
		k = k[:40]
	}
	return k
}

func (r *Run) havocKey(st *State, key string) {
	st.mem[key] = r.facts.Fresh(keyPrefix(key), r.keySort(key))
}

// mergeStates joins several states (with their own path conditions) into one.
func (r *Run) mergeStates(sts []*State) *State {
	var live []*State
	for _, s := range sts {
		if s != nil && s.pc != "false" {
			live = append(live, s)
		}
	}
	if len(live) == 0 {
		s := newState()
		s.pc = "false"
		return s
	}
	if len(live) == 1 {
		return live[0].clone()
	}
	out := newState()
	var pcs []string
	for _, s := range live {
		pcs = append(pcs, s.pc)
	}
	out.pc = r.facts.Define("pc", "Bool", sOr(pcs...))
	keys := map[string]bool{}
	for _, s := range live {
		for k := range s.mem {
			keys[k] = true
		}
	}
	ks := make([]string, 0, len(keys))
	for k := range keys {
		ks = append(ks, k)
	}
	sort.Strings(ks)
	for _, k := range ks {
		t := r.get(live[len(live)-1], k)
		same := true
		for _, s := range live {
			if r.get(s, k) != t {
				same = false
				break
			}
		}
		if same {
			if _, ok := live[0].mem[k]; ok || t != r.initial(k) {
				out.mem[k] = t
			}
			continue
		}
		for i := len(live) - 2; i >= 0; i-- {
			t = sIte(live[i].pc, r.get(live[i], k), t)
		}
		out.mem[k] = r.facts.Define(keyPrefix(k), r.keySort(k), t)
	}
	lkeys := map[string]bool{}
	for _, s := range live {
		for k := range s.locals {
			lkeys[k] = true
		}
	}
	lks := make([]string, 0, len(lkeys))
	for k := range lkeys {
		lks = append(lks, k)
	}
	sort.Strings(lks)
	for _, k := range lks {
		var v Val
		have := false
		for i := len(live) - 1; i >= 0; i-- {
			lv, ok := live[i].locals[k]
			if !ok {
				continue
			}
			if !have {
				v, have = lv, true
				continue
			}
			v = r.iteVal(live[i].pc, lv, v)
		}
		out.locals[k] = v
	}
	return out
}

// iteVal builds ite(c, a, b) component-wise.
func (r *Run) iteVal(c string, a, b Val) Val {
	if a.K != b.K {
		if a.K == KInvalid {
			return b
		}
		if b.K == KInvalid {
			return a
		}
		// closures/pointers of differing shapes: give up on structure
		return Val{K: KInvalid, T: a.T}
	}
	switch a.K {
	case KStruct, KTuple:
		if len(a.Fs) != len(b.Fs) {
			return Val{K: KInvalid, T: a.T}
		}
		out := Val{K: a.K, T: a.T, Fs: make([]Val, len(a.Fs))}
		for i := range a.Fs {
			out.Fs[i] = r.iteVal(c, a.Fs[i], b.Fs[i])
		}
		return out
	case KPtr:
		if a.P != nil && b.P != nil && *a.P == *b.P {
			return a
		}
		if a.P == nil && b.P == nil {
			return Val{K: KPtr, T: a.T, S: sIte(c, a.S, b.S)}
		}
		if a.P != nil && b.P != nil && a.P.Kind == b.P.Kind && a.P.Struct == b.P.Struct && a.P.Field == b.P.Field && a.P.Kind != PLocal && a.P.Kind != PGlobal {
			p := *a.P
			p.Base = sIte(c, a.P.Base, b.P.Base)
			if a.P.Kind == PElem {
				p.Index = sIte(c, a.P.Index, b.P.Index)
			}
			return Val{K: KPtr, T: a.T, P: &p}
		}
		return Val{K: KInvalid, T: a.T}
	case KClosure:
		if a.Fn == b.Fn {
			return a
		}
		return Val{K: KInvalid, T: a.T}
	case KSpec:
		return Val{K: KSpec, T: a.T, Sort: a.Sort, S: sIte(c, a.S, b.S)}
	case KInvalid:
		return a
	}
	srt := scalarSort(a.K)
	t := sIte(c, a.S, b.S)
	if len(t) > 200 {
		t = r.facts.Define("m", srt, t)
	}
	out := a
	out.S = t
	if a.Fn != b.Fn {
		out.Fn = nil
	}
	return out
}

// zeroVal returns the zero value of a Go type.
func (r *Run) zeroVal(t types.Type) Val {
	k, _ := kindOf(t)
	switch k {
	case KBool:
		return Val{K: KBool, T: t, S: "false"}
	case KInt, KRef, KIface:
		return Val{K: k, T: t, S: "0"}
	case KPtr:
		return Val{K: KPtr, T: t, S: "0"}
	case KStr:
		return Val{K: KStr, T: t, S: "str_empty"}
	case KSlice:
		return Val{K: KSlice, T: t, S: "(mk_slice 0 0 0 0)"}
	case KStruct:
		st := t.Underlying().(*types.Struct)
		v := Val{K: KStruct, T: t}
		for i := 0; i < st.NumFields(); i++ {
			v.Fs = append(v.Fs, r.zeroVal(st.Field(i).Type()))
		}
		return v
	case KTuple:
		tu := t.(*types.Tuple)
		v := Val{K: KTuple, T: t}
		for i := 0; i < tu.Len(); i++ {
			v.Fs = append(v.Fs, r.zeroVal(tu.At(i).Type()))
		}
		return v
	}
	return Val{K: KInvalid, T: t}
}

// freshVal returns an unconstrained value of a Go type (with range facts for ints).
func (r *Run) freshVal(prefix string, t types.Type, st *State) Val {
	k, srt := kindOf(t)
	switch k {
	case KStruct:
		s := t.Underlying().(*types.Struct)
		v := Val{K: KStruct, T: t}
		for i := 0; i < s.NumFields(); i++ {
			v.Fs = append(v.Fs, r.freshVal(prefix+"."+s.Field(i).Name(), s.Field(i).Type(), st))
		}
		return v
	case KTuple:
		tu := t.(*types.Tuple)
		v := Val{K: KTuple, T: t}
		for i := 0; i < tu.Len(); i++ {
			v.Fs = append(v.Fs, r.freshVal(fmt.Sprintf("%s.%d", prefix, i), tu.At(i).Type(), st))
		}
		return v
	case KInvalid:
		return Val{K: KInvalid, T: t}
	}
	c := r.facts.Fresh(prefix, srt)
	v := Val{K: k, T: t, S: c}
	r.assumeWellTyped(v, st)
	return v
}

// assumeWellTyped adds the type invariants of a scalar value: integer range,
// slice shape, references not beyond the current heap top.
func (r *Run) assumeWellTyped(v Val, st *State) {
	switch v.K {
	case KInt:
		if lo, hi, ok := intRange(v.T); ok {
			r.facts.Assert(fmt.Sprintf("(and (<= %s %s) (<= %s %s))", lo, v.S, v.S, hi))
		}
	case KSlice:
		r.facts.Assert(fmt.Sprintf("(and (<= 0 (s_off %[1]s)) (<= 0 (s_len %[1]s)) (<= (s_len %[1]s) (s_cap %[1]s)) (>= (s_base %[1]s) 0) (=> (= (s_base %[1]s) 0) (= (s_cap %[1]s) 0)))", v.S))
		if st != nil {
			r.facts.Assert(fmt.Sprintf("(<= (root (s_base %s)) %s)", v.S, r.get(st, "g|$heap")))
		}
	case KRef, KPtr:
		if v.S != "" {
			if st != nil {
				r.facts.Assert(fmt.Sprintf("(<= (root %s) %s)", v.S, r.get(st, "g|$heap")))
			}
		}
	case KIface:
		r.facts.Assert("(>= " + v.S + " 0)")
		r.facts.Assert(fmt.Sprintf("(= (= %s 0) (= (itag %s) 0))", v.S, v.S))
	}
}
