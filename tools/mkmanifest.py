#!/usr/bin/env python3
"""Regenerates /verif/MANIFEST.json from the table below (single source of truth for claims)."""
import json, subprocess

TECH = "contract-based deductive verification: Gobra-style contracts on the real functions, weakest-precondition VCs generated from go/ssa of /repo's working tree on every run, discharged by z3 5.1.0 / cvc5 1.0.3 / z3 4.8.12"

# property -> (level text, level note, design ref)
CLAIMS = {}
NOT_YET = {}

def claim(pid, text, note, ref):
    CLAIMS[pid] = (text, note, ref)

exec(open('/verif/tools/claims.py').read())

def main():
    checks = []
    for pid in sorted(CLAIMS):
        text, note, ref = CLAIMS[pid]
        checks.append({
            "property_id": pid,
            "quick_cmd": "/verif/bin/gpverify check -p %s -tier quick" % pid,
            "thorough_cmd": "/verif/bin/gpverify check -p %s -tier thorough" % pid,
            "evidence_file": "/verif/evidence/%s.json" % pid,
            "replay_cmd_template": "/verif/bin/gpverify replay {path}",
            "engine": "gpverify",
            "level_claimed": {"category": "proof", "text": text, "design_ref": ref},
            "level_note": note,
            "technique": TECH,
        })
    na = []
    for i in range(1, 21):
        pid = "C%02d" % i
        if pid not in CLAIMS:
            na.append({"property_id": pid, "reason": NOT_YET.get(pid, "check not built yet (work in progress; planned in DESIGN.md section 7)")})
    hooks_commits = subprocess.run("git -C /repo log --format=%H --grep='^verif hook' ", shell=True, capture_output=True, text=True).stdout.split()
    m = {
        "version": 1,
        "setup_cmd": "cd /verif/engine && env PATH=/opt/veriftools/go1.26.8/bin:$PATH GOTOOLCHAIN=local GOFLAGS=-mod=vendor GOPROXY=off go build -o /verif/bin/gpverify ./cmd/gpverify",
        "hooks": {
            "guard": "verif",
            "enable": "go build tag `verif` (-tags verif); the hook files are comment-only contract files (//go:build verif, package clause, //@ lines) read by /verif/bin/gpverify; they add no executable code",
            "baseline_off_cmd": "cd /repo && go test -vet=off -count=1 -timeout 25m ./...",
            "source_commits": hooks_commits,
            "add_only": True,
        },
        "engines": [{"name": "gpverify", "path": "/verif/engine", "serves_properties": sorted(CLAIMS), "kind_free_text": "VC generator over go/ssa of /repo's working tree with Gobra-style contracts (in /repo/**/verif_contracts.go, build tag verif, and /verif/contracts/*.spec for assumed contracts of dependencies); one SMT query per obligation; portfolio z3 5.1.0 -> cvc5 1.0.3 -> z3 4.8.12"}],
        "checks": checks,
        "not_applicable": na,
        "notes": "See DESIGN.md. Every check rebuilds its VCs from /repo's working tree. Exit 0: all obligations of the property discharged (KNOWN-FINDING lines for recorded defects); exit 1: VIOLATION lines; exit 2: tool error / undecided (no VIOLATION line).",
    }
    json.dump(m, open('/verif/MANIFEST.json', 'w'), indent=1)
    print("claimed:", sorted(CLAIMS))

main()
