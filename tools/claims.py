claim("C01",
 "Postconditions of (*Client).Start, transcribed from the property (error or dialable address; success implies every field check; reported protocol/version/address equal the line's; no panic for any line or configuration; the wait is a select with the start-timeout case), are discharged for all handshake lines and all client configurations.",
 "Assumed contracts for strings/strconv/net/x509/base64 parsers and user-supplied runner methods; the numeric value of the timeout is not verified, only its presence as an alternative of the wait; integer arithmetic mathematical.",
 "DESIGN.md section 7 C01")
claim("C04",
 "Contract of (*Client).Kill (nothing to do => no effect; otherwise graceful-and-done or runner.Kill called, management goroutines awaited, socket directory removed; graceful exit is not force-killed) and of CleanupClients (every managed client gets a Kill, all awaited, lock released before waiting) discharged for all states; every wait on Kill's path needs a bounding alternative.",
 "Actual reaping by the kernel and the 2 s grace value are not decided. Known finding D3: ClientProtocol.Close is not time-bounded (recorded in known_findings.json). WaitGroup wait justified by listed signallers (trusted).",
 "DESIGN.md section 7 C04")
claim("C05",
 "For every path of (*Client).Start after a successful runner.Start: an error return implies runner.Kill was called (deferred cleanup reads the named result), the runner is recorded in the client before launch, and Kill with no address force-kills.",
 "That runner.Kill / SIGKILL actually terminates the process is assumed; panics of user callbacks are not modelled as flows.",
 "DESIGN.md section 7 C05")
claim("C13",
 "(*SecureConfig).Check returns true iff the digest of the file equals the checksum (length-sensitive), with the dedicated errors; in Start the check dominates every launch site and a failed or erroring check launches nothing.",
 "Assumed contracts for os.Open, io.Copy, hash.Hash.Sum, subtle.ConstantTimeCompare; the hash function is uninterpreted.",
 "DESIGN.md section 7 C13")
claim("C14",
 "Start-time cells decided by go-plugin's own sequential code: option exclusivity, SecureConfig/multiplexing with Reattach, allowed-protocol filter, multiplexing capability with the dedicated error, unknown protocol in Client(); no panic on any of these paths.",
 "Positive end-to-end cells and first-use TLS mismatches need execution of the matrix and are not decided by contracts (DESIGN.md section 9).",
 "DESIGN.md section 7 C14")
claim("C15",
 "ReattachConfig/reattach round trip (address, protocol), default reattach function fails with ErrProcessNotFound iff the probe dial fails and closes the probe connection, non-test reattach records the runner (so Kill kills it), test-mode reattach leaves the runner unset (Kill is a no-op).",
 "Liveness of the real process and state visibility across reattach are not decided; Serve's test-mode paths are covered under C16 when claimed.",
 "DESIGN.md section 7 C15")
claim("C19",
 "Object invariant of Client (at most one launch per client, address stable once set, cached protocol client stable) assumed at every lock acquisition and proved at every release in every method; rely/guarantee clauses make it hold under any interleaving; Start/Client/Kill/Protocol/ReattachConfig/ID/Exited contracts discharged.",
 "Known finding D12: with a RunnerFunc a Start after a failed Start launches again (region recorded in known_findings.json; outside that region the invariant is proved). Immutability of config fields is checked by an SSA scan of the whole module.",
 "DESIGN.md section 7 C19")
claim("C02",
 "protocolVersion returns max(S∩H) when the sets intersect, else min(S), else the legacy values, with the plugin set registered under the returned version (S = served versions after legacy folding, H = successfully parsed entries of PLUGIN_PROTOCOL_VERSIONS), proved with loop invariants over the unspecified map iteration order; the client accepts exactly offered versions (checkProtoVersion) and adopts the set registered under the announced one.",
 "sort.Sort(sort.Reverse(sort.IntSlice)) is specified as an in-place non-increasing permutation (assumed); strings.Split/strconv.Atoi assumed; run-time use of the negotiated set by net/rpc or gRPC is not decided.",
 "DESIGN.md section 7 C02")
claim("C10",
 "parseJSON and flattenKVPairs are total and functionally specified (hclog keys moved only when strings, the remaining keys enumerated once each with their values); logStderr's per-line contract (verbatim copy then newline placement, continuation flag, exactly one log record per line at the level given by hclog JSON / [LEVEL] prefix / panic mode, kv arguments) is a loop invariant proved for every ReadLine result; the stderr and stdout reader goroutines return only when their stream is finished or broken and always signal their wait groups.",
 "bufio.Reader.ReadLine, bufio.Scanner, encoding/json, hclog are assumed contracts; 'unchanged' is relative to ReadLine's notion of a line. Fixed defects D7 (unchecked type assertions) and D8 (stdout no longer drained after a scanner error).",
 "DESIGN.md section 7 C10")
claim("C06",
 "Lock and channel invariants of MuxBroker: every pending slot stored under key k has ghost key k and its channel only ever carries connections whose first wire word is k; Accept(id) returns only such a connection and acks id; Dial(id) writes id and accepts only ack id; the net/rpc dispenser serves the implementation it created on the id it returned and the client dials the id it was given; NextId is a single atomic increment (distinct for fewer than 2^32 calls). A pure SMT lemma joins both ends.",
 "yamux stream pairing and FIFO delivery are assumed (lemma hypothesis); 'both succeed inside the ~5 s window' is timing and not decided. Documented precondition: one outstanding Accept per id.",
 "DESIGN.md section 7 C06")
claim("C07",
 "Non-multiplexed GRPCBroker: Accept(id) announces a ConnInfo carrying id and the (translated) address of the listener it created in this call and returns that listener; Run files every non-knock message under its ServiceId (channel invariant); DialWithOptions(id) consumes only ConnInfo with ServiceId id and dials exactly the (translated, resolved) address it carries, with TLS iff the broker has a config; AcceptAndServe serves on the accepted listener and closes it; both streamer implementations hand messages over unchanged.",
 "gRPC transport, ordering of the broker stream and the ~5 s timing window are not decided; custom runners' address translation is assumed to be inverse (identity proved for cmdrunner).",
 "DESIGN.md section 7 C07")
claim("C08",
 "Multiplexed broker: per-function routing contracts of GRPCBroker (knock, listenForKnocks, muxDial holding dialMutex from knock to Dial), GRPCServerMuxer (a connection accepted while a knock for id is queued goes to the channel registered under id; the 'no listener' branch that tears down the main server is unreachable when knocks are only acknowledged for registered ids) and GRPCClientMuxer; spawn precondition: the knock listener starts only after the id's listener is registered (fixed defect D4).",
 "Sequential establishment is a documented precondition; yamux FIFO of Open/Accept and schedules of concurrent establishments are not decided.",
 "DESIGN.md section 7 C08")
claim("C09",
 "No blocking operation while a broker lock is held (noblock-locked obligations on every channel operation and blocking call), locks balanced on every exit, every broker wait has a timer / quit / connection-bound justification, every inbound stream is parked, handed over or closed (ownership counter), Close closes quit/done channels once. Fixed defects D5 and D6.",
 "Wall-clock values and select fairness are not decided; connection-bound waits are accepted in mode peer-dead (pending I/O fails when the peer dies).",
 "DESIGN.md section 7 C09")
