package main

import (
	"fmt"
	"go/types"
	"os"
	"path/filepath"
	"sort"
	"strings"
	"sync"
	"time"

	"golang.org/x/tools/go/ssa"
)

type FuncResult struct {
	cache      *lineSyms
	cacheOnce  sync.Once
	Obs        map[string]string // replay observables: name -> SMT term over the entry state
	AxLo, AxHi int // lines [AxLo,AxHi) of Facts are the global axioms of the spec files
	Name     string
	Obls     []*Obligation
	Notes    []string
	Assumes  []string
	Specs    []string
	Inlined  []string
	Default  []string
	EvalErrs []string
	GenTime  float64
	Facts    []string
	Declared map[string]string
	RunNames map[string]string
}

// verifyFunc generates all obligations of one function under contract.
func (e *Engine) verifyFunc(name string) (*FuncResult, error) {
	fn := e.funcs[name]
	if fn == nil {
		return nil, fmt.Errorf("function %s not found in /repo (renamed or removed?)", name)
	}
	t0 := time.Now()
	r := newRun(e, fn)
	fr := r.newFrame(fn, nil)
	r.topFrame = fr
	st := newState()
	// global axioms
	axLo := r.facts.Len()
	r.assertAxioms()
	axHi := r.facts.Len()
	// parameters
	var args []Val
	for _, p := range fn.Params {
		v := r.freshVal("p_"+p.Name(), p.Type(), st)
		if v.K == KInvalid {
			r.note(fmt.Sprintf("%s: parameter %s of unsupported type %s", name, p.Name(), p.Type()))
		}
		args = append(args, v)
		if isScalar(v.K) {
			r.names[name+":"+p.Name()] = v.S
		}
	}
	var binds []Val
	for _, fv := range fn.FreeVars {
		v := r.freshVal("fv_"+fv.Name(), fv.Type(), st)
		if pt, ok := fv.Type().Underlying().(*types.Pointer); ok && v.K == KPtr {
			// captured variable cell: non-nil, and not written by callees (only this closure or
			// its parent can name it)
			r.facts.Assert("(not (= " + v.S + " 0))")
			if k, _ := kindOf(pt.Elem()); isScalar(k) {
				r.cells = append(r.cells, cellRec{r.cellKey(pt.Elem()), v.S})
			}
		}
		binds = append(binds, v)
	}
	if fn.Signature.Recv() != nil && len(args) > 0 && (args[0].K == KRef || args[0].K == KPtr) {
		r.facts.Assert("(not (= " + args[0].S + " 0))")
		r.assumes["methods are called on non-nil receivers"] = true
	}
	// bind names early for requires
	for i, p := range fn.Params {
		v := args[i]
		v.T = p.Type()
		fr.names[p.Name()] = v
		fr.vals[p] = v
	}
	for i, fv := range fn.FreeVars {
		fr.names["&"+fv.Name()] = binds[i]
		fr.vals[fv] = binds[i]
	}
	fr.entry = st.clone()
	obs := e.evalObservables(fr, st)
	if fr.contract != nil {
		for _, rq := range fr.contract.Requires {
			v, err := fr.eval(st, rq.Expr, nil)
			if err != nil {
				r.evalErrors = append(r.evalErrors, fmt.Sprintf("%s: requires %q: %v", name, rq.Text, err))
				continue
			}
			r.facts.Assert(v.S)
		}
		// vacuity guard: the precondition must be satisfiable
		r.obls = append(r.obls, &Obligation{Name: name + "/vacuity/requires-sat", Kind: "vacuity", Func: name, NFacts: r.facts.Len(), Pc: "true", Goal: "false", Text: "precondition satisfiable (expected: not refutable)"})
	}
	r.execFunc(fr, st, args, binds)
	// covers of the statements constrained by assert clauses
	{
		var ks []string
		for k := range r.coverPcs {
			ks = append(ks, k)
		}
		sort.Strings(ks)
		for _, k := range ks {
			r.obls = append(r.obls, &Obligation{Name: k, Kind: "vacuity", Func: name, Pos: r.coverPos[k], NFacts: r.facts.Len(), Pc: sOr(r.coverPcs[k]...), Goal: "false",
				Text: "statement constrained by an assert clause is reachable on some path (expected: not refutable)"})
		}
	}
	// unused anchors are a contract/code mismatch
	if fr.contract != nil {
		for _, ac := range fr.contract.Ats {
			if !r.usedAts[name+"|"+ac.Anchor+"|"+ac.Text] {
				if ac.Kind == "assert" {
					// the statement this clause constrains no longer exists: the obligation that was
					// discharged on the tree the contract was written for cannot be discharged any more
					r.obls = append(r.obls, &Obligation{Name: name + "/assert/" + ac.Anchor + ":" + ac.Label(clip(ac.Text, 30)), Kind: "assert", Func: name, Tags: ac.Tags,
						Text: ac.Text + " -- anchor " + ac.Anchor + " not found in " + name + " (the constrained statement was removed, replaced or renumbered)", Pc: "true", Goal: "false",
						Result: &SolverResult{Status: "anchor-missing", Solver: "anchor-scan", Output: "anchor " + ac.Anchor + " does not occur in the function"}})
					continue
				}
				r.evalErrors = append(r.evalErrors, fmt.Sprintf("%s: anchor %q not found in the function", name, ac.Anchor))
			}
		}
	}
	// the same for the contracts of function literals that were executed inside this function
	// (inline / spawn_inline): a clause of theirs that no statement answered to is a mismatch
	for iname := range r.inlined {
		iname = strings.TrimSuffix(iname, " (at go statement)")
		fc := e.cs.Funcs[iname]
		if fc == nil || iname == name {
			continue
		}
		for _, ac := range fc.Ats {
			if r.usedAts[iname+"|"+ac.Anchor+"|"+ac.Text] {
				continue
			}
			if ac.Kind == "assert" {
				r.obls = append(r.obls, &Obligation{Name: name + "/assert/" + iname + ":" + ac.Anchor + ":" + ac.Label(clip(ac.Text, 30)), Kind: "assert", Func: name, Tags: ac.Tags,
					Text: ac.Text + " -- anchor " + ac.Anchor + " of " + iname + " was never reached while executing " + name + " (statement removed, renumbered, or on a path the engine does not explore)", Pc: "true", Goal: "false",
					Result: &SolverResult{Status: "anchor-missing", Solver: "anchor-scan", Output: "anchor " + ac.Anchor + " not reached"}})
			} else {
				r.evalErrors = append(r.evalErrors, fmt.Sprintf("%s: anchor %q of inlined %s not found", name, ac.Anchor, iname))
			}
		}
	}
	res := &FuncResult{Obs: obs, AxLo: axLo, AxHi: axHi, Name: name, Obls: r.obls, GenTime: time.Since(t0).Seconds(), Facts: r.facts.lines, RunNames: r.names, Declared: r.facts.declared}
	res.Notes = sortedKeys(r.notes)
	res.Assumes = sortedKeys(r.assumes)
	res.Specs = sortedKeys(r.usedSpecs)
	res.Inlined = sortedKeys(r.inlined)
	res.Default = sortedKeys(r.defaulted)
	res.EvalErrs = r.evalErrors
	return res, nil
}

func (r *Run) assertAxioms() {
	cf := &Frame{r: r, fname: "axiom", vals: map[ssa.Value]Val{}, names: map[string]Val{}}
	st := newState()
	cf.entry = st
	for _, ax := range r.eng.cs.Axioms {
		ev := &evaluator{fr: cf, r: r, st: st, old: st, bound: map[string]Val{}}
		v, err := ev.evalTop(ax.Expr)
		if err != nil {
			r.evalErrors = append(r.evalErrors, fmt.Sprintf("axiom %q: %v", ax.Text, err))
			continue
		}
		r.facts.Assert(v.S)
	}
}

var specSymbols = map[string]bool{}

// smtTokens lists the symbols occurring in an SMT-LIB line.
func smtTokens(l string, out map[string]bool) {
	i := 0
	for i < len(l) {
		c := l[i]
		switch {
		case c == '|':
			j := strings.IndexByte(l[i+1:], '|')
			if j < 0 {
				return
			}
			out[l[i:i+j+2]] = true
			i += j + 2
		case c == '(' || c == ')' || c == ' ' || c == '\t':
			i++
		case c == '"':
			j := strings.IndexByte(l[i+1:], '"')
			if j < 0 {
				return
			}
			i += j + 2
		default:
			j := i
			for j < len(l) && l[j] != '(' && l[j] != ')' && l[j] != ' ' {
				j++
			}
			out[l[i:j]] = true
			i = j
		}
	}
}

// relevantFacts drops the global axioms that share no uninterpreted symbol (transitively through
// other axioms) with the rest of the query. Dropping hypotheses is always sound for a proof; it
// keeps queries small and solver behaviour independent of unrelated spec files.
func relevantFacts(facts []string, axLo, axHi int, extra ...string) []string {
	return relevantFactsCached(nil, facts, axLo, axHi, extra...)
}

// lineSyms caches, per fact line of one function, the spec symbols it mentions.
type lineSyms struct {
	mu   sync.Mutex
	syms [][]string
}

func (ls *lineSyms) get(facts []string, i int) []string {
	ls.mu.Lock()
	defer ls.mu.Unlock()
	for len(ls.syms) <= i {
		k := len(ls.syms)
		var out []string
		if !strings.HasPrefix(facts[k], "(declare-") {
			t := map[string]bool{}
			smtTokens(facts[k], t)
			for sym := range t {
				if specSymbols[sym] {
					out = append(out, sym)
				}
			}
		}
		ls.syms = append(ls.syms, out)
	}
	return ls.syms[i]
}

func relevantFactsCached(cache *lineSyms, facts []string, axLo, axHi int, extra ...string) []string {
	if axHi > len(facts) {
		axHi = len(facts)
	}
	if axLo >= axHi {
		return facts
	}
	if cache == nil {
		cache = &lineSyms{}
	}
	// relevance is carried by the functions the spec files declare, not by the engine's own
	// vocabulary (type tags, boxing, heap roots), which occurs in every query
	syms := map[string]bool{}
	for i := range facts {
		if i >= axLo && i < axHi && strings.HasPrefix(facts[i], "(assert") {
			continue
		}
		for _, sy := range cache.get(facts, i) {
			syms[sy] = true
		}
	}
	for _, l := range extra {
		t := map[string]bool{}
		smtTokens(l, t)
		for sy := range t {
			if specSymbols[sy] {
				syms[sy] = true
			}
		}
	}
	type ax struct {
		idx  int
		syms []string
	}
	var axs []ax
	for i := axLo; i < axHi; i++ {
		if !strings.HasPrefix(facts[i], "(assert") {
			continue
		}
		axs = append(axs, ax{i, cache.get(facts, i)})
	}
	keep := map[int]bool{}
	for changed := true; changed; {
		changed = false
		for _, a := range axs {
			if keep[a.idx] {
				continue
			}
			hit := len(a.syms) == 0
			for _, sy := range a.syms {
				if syms[sy] {
					hit = true
					break
				}
			}
			if hit {
				keep[a.idx] = true
				changed = true
				for _, sy := range a.syms {
					syms[sy] = true
				}
			}
		}
	}
	out := make([]string, 0, len(facts))
	for i, l := range facts {
		if i >= axLo && i < axHi && strings.HasPrefix(l, "(assert") && !keep[i] {
			continue
		}
		out = append(out, l)
	}
	return out
}

// solveAll discharges obligations in parallel.
func solveAll(workDir string, frs []*FuncResult, timeoutS int, jobs int) {
	type job struct {
		fr *FuncResult
		o  *Obligation
		id int
	}
	var js []job
	id := 0
	for _, fr := range frs {
		for _, o := range fr.Obls {
			id++
			js = append(js, job{fr, o, id})
		}
	}
	os.MkdirAll(workDir, 0o755)
	ch := make(chan job)
	var wg sync.WaitGroup
	for w := 0; w < jobs; w++ {
		wg.Add(1)
		go func() {
			defer wg.Done()
			for j := range ch {
				o := j.o
				if o.Result != nil {
					continue // decided while generating (anchor scan)
				}
				if o.Goal == "true" {
					o.Result = &SolverResult{Status: "unsat", Solver: "trivial"}
					continue
				}
				file := filepath.Join(workDir, fmt.Sprintf("o%04d.smt2", j.id))
				o.File = file
				qfacts := relevantFactsCached(j.fr.symCache(), j.fr.Facts[:o.NFacts], j.fr.AxLo, j.fr.AxHi, o.Pc, o.Goal)
				writeQuery(file, qfacts, "(assert "+o.Pc+")", "(assert (not "+o.Goal+"))", "(check-sat)")
				var res SolverResult
				if o.Kind == "vacuity" {
					// cover: refuting the path condition from the quantifier-free facts alone already
					// shows the site is dead in the VC; a model of them is "not refuted" (quick and decisive
					// for the contradictions that matter: an assumed false, a contradictory requires)
					var qf []string
					for _, l := range qfacts {
						if !strings.Contains(l, "(forall ") && !strings.Contains(l, "(exists ") {
							qf = append(qf, l)
						}
					}
					writeQueryQF(file, qf, "(assert "+o.Pc+")", "(assert (not "+o.Goal+"))", "(check-sat)")
					res = runSolver("z3-new", file, 3)
				} else if strings.HasSuffix(o.Name, "!finding") {
					// "is the known finding still there?": a quick look is enough, no answer means still there
					res = runSolver("z3-new", file, 3)
				} else {
					res = runSolver("z3-new", file, 4)
					if res.Status != "unsat" && res.Status != "sat" {
						// second attempt: quantifier-free query built by instantiating the quantified
						// facts against the query's own ground terms (engine-side E-matching)
						first := res
						var all []string
						for _, l := range strings.Split(smtPreamble, "\n") {
							if strings.HasPrefix(l, "(assert (forall") {
								all = append(all, l)
							}
						}
						all = append(all, qfacts...)
						gfile := strings.TrimSuffix(file, ".smt2") + ".ground.smt2"
						tryGround := func(assume map[string]bool) SolverResult {
							var r SolverResult
							last := -1
							for _, rounds := range []int{1, 2, 3, 5} {
								lines, n := groundQueryAssume(all, o.Pc, o.Goal, rounds, assume)
								if n == last {
									break // nothing new to try
								}
								last = n
								writeQueryQF(gfile, lines)
								if n > o.Instances {
									o.Instances = n
								}
								r = runSolver("z3-new", gfile, timeoutS)
								if r.Status == "unsat" {
									return r
								}
								if r.Status != "sat" {
									// the ground query is decidable in principle: a timeout means it is too big
									r2 := runSolver("cvc5", gfile, timeoutS/2)
									if r2.Status == "unsat" {
										return r2
									}
								}
							}
							return r
						}
						res = tryGround(nil)
						if res.Status == "sat" {
							// case split on the conditions of state merges (ite), at most two of them:
							// every case must be refuted
							conds := iteConditions(qfacts)
							for k := 1; k <= 2 && k <= len(conds) && res.Status != "unsat"; k++ {
								allUnsat := true
								var worst SolverResult
								for mask := 0; mask < 1<<k; mask++ {
									as := map[string]bool{}
									for b := 0; b < k; b++ {
										as[conds[b]] = mask&(1<<b) != 0
									}
									rc := tryGround(as)
									if rc.Status != "unsat" {
										allUnsat = false
										worst = rc
										break
									}
									worst = rc
								}
								if allUnsat {
									res = worst
									res.Status = "unsat"
									res.Solver = "z3-new+case-split"
								}
							}
						}
						if res.Status == "unsat" {
							res.Solver += "+ground-instances"
							o.File = gfile
						} else if res.Status == "sat" {
							// a model of the instantiated (weakened) query: candidate counterexample.
							// One more look at the full query with the other solvers, briefly.
							gm := runSolver("z3-new", gfile, 5)
							r3 := runSolver("cvc5", file, 4)
							if r3.Status != "unsat" {
								// the old z3 has a different E-matching order and decides some of these at once
								if r4 := runSolver("z3", file, 8); r4.Status == "unsat" {
									r3 = r4
								}
							}
							if r3.Status == "unsat" {
								res = r3
							} else {
								res.Status = "unknown"
								res.Output = "ground-instantiated query is satisfiable (candidate counterexample); full query: " + r3.Status
								_ = gm
							}
						} else {
							// last resort: the original quantified query through the portfolio
							res = solveFile(file, timeoutS, false)
						}
						res.Time += first.Time
					}
				}
				o.Result = &res
				if res.Status != "unsat" && res.Status != "sat" && o.Kind != "vacuity" && !strings.HasSuffix(o.Name, "!finding") {
					// candidate counterexample: drop the quantified facts (weaker hypotheses) and ask for a model
					var qf []string
					for _, l := range qfacts {
						if !strings.Contains(l, "(forall ") && !strings.Contains(l, "(exists ") {
							qf = append(qf, l)
						}
					}
					cfile := strings.TrimSuffix(file, ".smt2") + ".cand.smt2"
					writeQueryQF(cfile, qf, "(assert "+o.Pc+")", "(assert (not "+o.Goal+"))", "(check-sat)", "(get-model)")
					r2 := runSolver("z3-new", cfile, 5)
					if r2.Status == "sat" {
						o.Candidate = r2.Model
					}
				}
				if res.Status == "sat" && o.Kind != "vacuity" && !strings.HasSuffix(o.Name, "!finding") {
					// rerun with model
					writeQuery(file, qfacts, "(assert "+o.Pc+")", "(assert (not "+o.Goal+"))", "(check-sat)", "(get-model)")
					r2 := runSolver(res.Solver, file, timeoutS)
					if r2.Status == "sat" {
						res.Model = r2.Model
						o.Result = &res
					}
				}
			}
		}()
	}
	for _, j := range js {
		ch <- j
	}
	close(ch)
	wg.Wait()
}

// status of an obligation after solving
func (o *Obligation) ok() bool {
	if o.Kind == "vacuity" {
		// must NOT be refutable: unsat means the precondition is contradictory
		return o.Result != nil && o.Result.Status != "unsat"
	}
	return o.Result != nil && o.Result.Status == "unsat"
}

func hasProp(tags []string, prop string) bool {
	for _, t := range tags {
		if propOf(t) == prop {
			return true
		}
	}
	return false
}

func onlyOtherProps(tags []string, prop string) bool {
	any := false
	for _, t := range tags {
		if strings.HasPrefix(t, "C") {
			any = true
			if propOf(t) == prop {
				return false
			}
		}
	}
	return any
}

// funcsForProp lists contract functions carrying a tag of the property.
func (e *Engine) funcsForProp(prop string) []string {
	var out []string
	for name, fc := range e.cs.Funcs {
		if fc.Extern {
			continue
		}
		if fc.Flags["inline"] != nil || fc.Flags["spawn_inline"] != nil {
			continue // closure contracts flagged inline are checked inside their parent
		}
		if fc.Props[prop] {
			out = append(out, name)
		}
	}
	// functions under contract that touch a struct type whose type contract (guarded-by, invariants,
	// immutables...) carries a clause of the property: the discipline obligations arise inside them
	types_ := map[string]bool{}
	for tn, tc := range e.cs.Types {
		if hasProp(tc.Tags, prop) {
			types_[tn] = true
			continue
		}
		for _, c := range tc.Inv {
			if hasProp(c.Tags, prop) {
				types_[tn] = true
			}
		}
	}
	if len(types_) > 0 {
		have := map[string]bool{}
		for _, n := range out {
			have[n] = true
		}
		for name, fc := range e.cs.Funcs {
			if fc.Extern || have[name] || fc.Flags["inline"] != nil || fc.Flags["spawn_inline"] != nil || fc.Flags["trusted"] != nil {
				continue
			}
			fn := e.funcs[name]
			if fn == nil {
				continue
			}
			if e.touchesTypes(fn, types_, 0) {
				out = append(out, name)
			}
		}
	}
	sort.Strings(out)
	return out
}

// touchesTypes: does fn (or a function literal inside it) access a field of one of the struct types?
func (e *Engine) touchesTypes(fn *ssa.Function, ts map[string]bool, depth int) bool {
	for _, b := range fn.Blocks {
		for _, ins := range b.Instrs {
			switch x := ins.(type) {
			case *ssa.FieldAddr:
				if ts[structKey(x.X.Type())] {
					return true
				}
			case *ssa.Field:
				if ts[structKey(x.X.Type())] {
					return true
				}
			case *ssa.UnOp:
				if g, ok := x.X.(*ssa.Global); ok && ts["$globals"] && g.Pkg != nil && e.modPkgSet[g.Pkg.Pkg] {
					return true
				}
			}
		}
	}
	if depth < 2 {
		for _, af := range fn.AnonFuncs {
			if e.cs.Funcs[e.funcName(af)] == nil && e.touchesTypes(af, ts, depth+1) {
				return true
			}
		}
	}
	return false
}

func (fr *FuncResult) symCache() *lineSyms {
	fr.cacheOnce.Do(func() { fr.cache = &lineSyms{} })
	return fr.cache
}
