package main

// Contract expression language: lexer, Pratt parser, AST.

import (
	"fmt"
	"strconv"
	"strings"
	"unicode"
)

type Expr struct {
	Op   string // "id","int","str","bool","nil","un","bin","call","sel","idx","forall","exists","upd","old"
	Name string // identifier / operator / field
	Int  int64
	Str  string
	Args []*Expr
	Vars []BoundVar
	Pos  int
}

type BoundVar struct {
	Name string
	Sort string
}

func (e *Expr) String() string {
	switch e.Op {
	case "id":
		return e.Name
	case "int":
		return strconv.FormatInt(e.Int, 10)
	case "str":
		return strconv.Quote(e.Str)
	case "bool":
		return e.Name
	case "nil":
		return "nil"
	case "un":
		return e.Name + e.Args[0].String()
	case "bin":
		return "(" + e.Args[0].String() + " " + e.Name + " " + e.Args[1].String() + ")"
	case "call":
		var xs []string
		for _, a := range e.Args {
			xs = append(xs, a.String())
		}
		return e.Name + "(" + strings.Join(xs, ", ") + ")"
	case "sel":
		return e.Args[0].String() + "." + e.Name
	case "idx":
		return e.Args[0].String() + "[" + e.Args[1].String() + "]"
	case "upd":
		return e.Args[0].String() + "[" + e.Args[1].String() + " := " + e.Args[2].String() + "]"
	case "forall", "exists":
		var vs []string
		for _, v := range e.Vars {
			vs = append(vs, v.Name+": "+v.Sort)
		}
		return "(" + e.Op + " " + strings.Join(vs, ", ") + " :: " + e.Args[0].String() + ")"
	}
	return "?"
}

type etok struct {
	kind string // id int str op eof
	text string
	pos  int
}

func lexExpr(s string) ([]etok, error) {
	var toks []etok
	i := 0
	for i < len(s) {
		c := s[i]
		switch {
		case c == ' ' || c == '\t':
			i++
		case unicode.IsLetter(rune(c)) || c == '_' || c == '$':
			j := i
			for j < len(s) && (unicode.IsLetter(rune(s[j])) || unicode.IsDigit(rune(s[j])) || s[j] == '_' || s[j] == '$' || s[j] == '#') {
				j++
			}
			toks = append(toks, etok{"id", s[i:j], i})
			i = j
		case unicode.IsDigit(rune(c)):
			j := i
			for j < len(s) && (unicode.IsDigit(rune(s[j])) || s[j] == 'x' || (s[j] >= 'a' && s[j] <= 'f') || (s[j] >= 'A' && s[j] <= 'F')) {
				j++
			}
			toks = append(toks, etok{"int", s[i:j], i})
			i = j
		case c == '"':
			j := i + 1
			for j < len(s) && s[j] != '"' {
				if s[j] == '\\' {
					j++
				}
				j++
			}
			if j >= len(s) {
				return nil, fmt.Errorf("unterminated string at %d", i)
			}
			u, err := strconv.Unquote(s[i : j+1])
			if err != nil {
				return nil, fmt.Errorf("bad string %s: %v", s[i:j+1], err)
			}
			toks = append(toks, etok{"str", u, i})
			i = j + 1
		default:
			ops := []string{"<==>", "==>", "::", ":=", "==", "!=", "<=", ">=", "&&", "||", "(", ")", "[", "]", ".", ",", "<", ">", "+", "-", "*", "/", "%", "!", ":"}
			found := false
			for _, op := range ops {
				if strings.HasPrefix(s[i:], op) {
					toks = append(toks, etok{"op", op, i})
					i += len(op)
					found = true
					break
				}
			}
			if !found {
				return nil, fmt.Errorf("unexpected character %q at %d in %q", c, i, s)
			}
		}
	}
	toks = append(toks, etok{"eof", "", len(s)})
	return toks, nil
}

type exprParser struct {
	toks []etok
	p    int
	src  string
}

func parseExpr(s string) (*Expr, error) {
	toks, err := lexExpr(s)
	if err != nil {
		return nil, err
	}
	p := &exprParser{toks: toks, src: s}
	e, err := p.parse(0)
	if err != nil {
		return nil, err
	}
	if p.peek().kind != "eof" {
		return nil, fmt.Errorf("trailing input at %d (%q) in %q", p.peek().pos, p.peek().text, s)
	}
	return e, nil
}

func (p *exprParser) peek() etok { return p.toks[p.p] }
func (p *exprParser) next() etok { t := p.toks[p.p]; p.p++; return t }
func (p *exprParser) accept(op string) bool {
	if p.peek().kind == "op" && p.peek().text == op {
		p.p++
		return true
	}
	return false
}
func (p *exprParser) expect(op string) error {
	if !p.accept(op) {
		return fmt.Errorf("expected %q at %d (got %q) in %q", op, p.peek().pos, p.peek().text, p.src)
	}
	return nil
}

var binPrec = map[string]int{
	"<==>": 1, "==>": 2, "||": 3, "&&": 4,
	"==": 5, "!=": 5, "<": 5, "<=": 5, ">": 5, ">=": 5, "in": 5,
	"+": 6, "-": 6, "*": 7, "/": 7, "%": 7,
}

func (p *exprParser) parse(minPrec int) (*Expr, error) {
	lhs, err := p.unary()
	if err != nil {
		return nil, err
	}
	for {
		t := p.peek()
		op := ""
		if t.kind == "op" {
			op = t.text
		} else if t.kind == "id" && t.text == "in" {
			op = "in"
		}
		prec, ok := binPrec[op]
		if !ok || prec < minPrec {
			return lhs, nil
		}
		p.next()
		nextMin := prec + 1
		if op == "==>" || op == "<==>" {
			nextMin = prec // right assoc
		}
		rhs, err := p.parse(nextMin)
		if err != nil {
			return nil, err
		}
		lhs = &Expr{Op: "bin", Name: op, Args: []*Expr{lhs, rhs}, Pos: t.pos}
	}
}

func (p *exprParser) unary() (*Expr, error) {
	t := p.peek()
	if t.kind == "op" && (t.text == "!" || t.text == "-" || t.text == "*") {
		p.next()
		x, err := p.unary()
		if err != nil {
			return nil, err
		}
		return &Expr{Op: "un", Name: t.text, Args: []*Expr{x}, Pos: t.pos}, nil
	}
	return p.postfix()
}

func (p *exprParser) postfix() (*Expr, error) {
	x, err := p.primary()
	if err != nil {
		return nil, err
	}
	for {
		switch {
		case p.accept("."):
			t := p.next()
			if t.kind != "id" {
				return nil, fmt.Errorf("expected field name at %d in %q", t.pos, p.src)
			}
			x = &Expr{Op: "sel", Name: t.text, Args: []*Expr{x}, Pos: t.pos}
		case p.accept("["):
			i, err := p.parse(0)
			if err != nil {
				return nil, err
			}
			if p.accept(":=") {
				v, err := p.parse(0)
				if err != nil {
					return nil, err
				}
				if err := p.expect("]"); err != nil {
					return nil, err
				}
				x = &Expr{Op: "upd", Args: []*Expr{x, i, v}}
			} else {
				if err := p.expect("]"); err != nil {
					return nil, err
				}
				x = &Expr{Op: "idx", Args: []*Expr{x, i}}
			}
		default:
			return x, nil
		}
	}
}

func (p *exprParser) primary() (*Expr, error) {
	t := p.next()
	switch t.kind {
	case "int":
		n, err := strconv.ParseInt(t.text, 0, 64)
		if err != nil {
			return nil, fmt.Errorf("bad int %q", t.text)
		}
		return &Expr{Op: "int", Int: n, Pos: t.pos}, nil
	case "str":
		return &Expr{Op: "str", Str: t.text, Pos: t.pos}, nil
	case "id":
		switch t.text {
		case "true", "false":
			return &Expr{Op: "bool", Name: t.text, Pos: t.pos}, nil
		case "nil":
			return &Expr{Op: "nil", Pos: t.pos}, nil
		case "forall", "exists":
			var vars []BoundVar
			for {
				v := p.next()
				if v.kind != "id" {
					return nil, fmt.Errorf("expected bound variable at %d in %q", v.pos, p.src)
				}
				srt := "Int"
				if p.accept(":") {
					s := p.next()
					srt = s.text
				}
				vars = append(vars, BoundVar{v.text, srt})
				if !p.accept(",") {
					break
				}
			}
			if err := p.expect("::"); err != nil {
				return nil, err
			}
			body, err := p.parse(0)
			if err != nil {
				return nil, err
			}
			return &Expr{Op: t.text, Vars: vars, Args: []*Expr{body}, Pos: t.pos}, nil
		}
		if p.accept("(") {
			var args []*Expr
			if !p.accept(")") {
				for {
					a, err := p.parse(0)
					if err != nil {
						return nil, err
					}
					args = append(args, a)
					if p.accept(")") {
						break
					}
					if err := p.expect(","); err != nil {
						return nil, err
					}
				}
			}
			return &Expr{Op: "call", Name: t.text, Args: args, Pos: t.pos}, nil
		}
		return &Expr{Op: "id", Name: t.text, Pos: t.pos}, nil
	case "op":
		if t.text == "(" {
			e, err := p.parse(0)
			if err != nil {
				return nil, err
			}
			if err := p.expect(")"); err != nil {
				return nil, err
			}
			return e, nil
		}
	}
	return nil, fmt.Errorf("unexpected %q at %d in %q", t.text, t.pos, p.src)
}
