#!/bin/bash
# usage: mkmut.sh <name> <file> <python-replace-old> <python-replace-new>
# creates selftest/mutants/<name>.patch from a textual replacement in /repo (working tree left unchanged)
set -e
name=$1; file=$2; old=$3; new=$4; dir=${5:-mutants}
cd /repo
python3 - "$file" "$old" "$new" <<'PY'
import sys
p,old,new=sys.argv[1:4]
s=open(p).read()
if s.count(old)!=1:
    print("replacement target occurs",s.count(old),"times"); sys.exit(1)
open(p,'w').write(s.replace(old,new))
PY
go build ./... || { git checkout -- "$file"; echo "mutant does not compile"; exit 1; }
git diff -- "$file" > /verif/selftest/$dir/$name.patch
git checkout -- "$file"
echo "wrote $dir/$name.patch"
