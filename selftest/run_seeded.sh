#!/bin/bash
# re-runs every seeded change under /verif/seeded against the check(s) recorded in its
# confirmed.json; every one must still be reported (CAUGHT). Usage: run_seeded.sh [jobs]
jobs=${1:-3}
run() {
  d=$1; id=$(basename $d)
  props=$(python3 -c "import json;print(' '.join(json.load(open('$d/confirmed.json'))['checks_run']))")
  out=$(FROM_HEAD=1 MAXV=1 /verif/selftest/try_patch.sh $d/patch.diff $props 2>&1)
  if echo "$out" | grep -q '^VIOLATION'; then echo "CAUGHT  $id $(echo "$out" | grep -m1 '^VIOLATION' | cut -c1-160)"; else echo "MISSED  $id $(echo "$out" | head -2 | tr '\n' ' ' | cut -c1-200)"; fi
}
export -f run
ls -d /verif/seeded/*/ | sed 's#/$##' | xargs -P $jobs -I{} bash -c 'run {}'
